"""Helpers that drive the REAL elexmodel code (run under /venv/bin/python, PYTHONPATH=<repo>/src:/verif).

Used by replays of solver counter-models and by the bounded stand-ins.  Nothing here re-implements model
logic: it only builds inputs (synthetic elections) and calls the real client / classes.
"""
import io
import logging
import os
import sys
import warnings

os.environ.setdefault("APP_ENV", "local")
os.environ.setdefault("DATA_ENV", "dev")
os.environ.setdefault("MODEL_S3_BUCKET", "b")
os.environ.setdefault("MODEL_S3_PATH_ROOT", "r")

import numpy as np  # noqa: E402
import pandas as pd  # noqa: E402

logging.disable(logging.CRITICAL)

FEATURES = ["f1", "f2"]


def config(election_id="2024-11-05_USA_G", office="S", states=("AA", "BB"), unit_type="county"):
    return {
        election_id: [
            {
                "office": office,
                "states": list(states),
                "geographic_unit_types": [unit_type],
                "historical_election": [],
                "features": list(FEATURES),
                "aggregates": ["postal_code", "county_classification", "county_fips", "district", "unit"],
                "fixed_effect": ["postal_code", "county_fips", "county_classification", "district"],
                "baseline_pointer": {"dem": "dem", "gop": "gop", "turnout": "turnout"},
            }
        ]
    }


def synthetic(n_units, seed=0, states=("AA", "BB"), n_counties=3, classes=("urban", "rural"), district=False, unit_type="county"):
    """baseline (preprocessed) frame with n_units units spread over states x counties x classes."""
    rng = np.random.default_rng(seed)
    rows = []
    for i in range(n_units):
        st = states[i % len(states)]
        county = f"{st}{(i // len(states)) % n_counties:02d}"
        cls = classes[(i // (len(states) * n_counties)) % len(classes)]
        dist = f"d{i % 2}"
        fips = f"{dist}_{county}_{i:04d}" if district else f"{county}_{i:04d}"
        bt = int(rng.integers(200, 5000))
        bd = int(bt * rng.uniform(0.25, 0.7))
        bg = int((bt - bd) * rng.uniform(0.85, 1.0))
        rows.append(
            {
                "postal_code": st,
                "geographic_unit_fips": fips,
                "county_fips": county,
                "county_classification": cls,
                "district": dist,
                "baseline_turnout": bt,
                "baseline_dem": bd,
                "baseline_gop": bg,
                "f1": float(rng.normal()),
                "f2": float(rng.uniform()),
            }
        )
    df = pd.DataFrame(rows)
    df["baseline_normalized_margin"] = (df.baseline_dem - df.baseline_gop) / (df.baseline_dem + df.baseline_gop)
    if not district:
        df = df.drop(columns=["district"])
    return df


def feed(baseline, percent, seed=0, swing=0.1):
    """live feed for the baseline units: results = baseline * (1+noise) scaled by percent/100 for partial units.
    `percent`: array-like of percent_expected_vote per unit."""
    rng = np.random.default_rng(seed + 1)
    n = len(baseline)
    percent = np.asarray(percent, dtype=float)
    fac = (1 + swing + rng.normal(0, 0.05, n)) * np.minimum(percent, 100) / 100.0
    cur = pd.DataFrame(
        {
            "postal_code": baseline.postal_code.values,
            "geographic_unit_fips": baseline.geographic_unit_fips.values,
            "results_dem": np.round(baseline.baseline_dem.values * fac * (1 + rng.normal(0, 0.03, n))).astype(int),
            "results_gop": np.round(baseline.baseline_gop.values * fac * (1 + rng.normal(0, 0.03, n))).astype(int),
            "percent_expected_vote": percent,
        }
    )
    cur["results_dem"] = cur.results_dem.clip(lower=0)
    cur["results_gop"] = cur.results_gop.clip(lower=0)
    cur["results_turnout"] = cur.results_dem + cur.results_gop + np.round(baseline.baseline_turnout.values * 0.02 * fac).astype(int)
    return cur


def run_client(cur, base, estimands=("turnout",), pi_method="nonparametric", prediction_intervals=(0.9,), threshold=100, aggregates=("postal_code", "unit"), model_parameters=None, office="S", election_id="2024-11-05_USA_G", unit_type="county", client=None, features=(), fixed_effects=None, **kw):
    from elexmodel.client import ModelClient

    mp = {"fit_margin_outlier_model": False, "fit_turnout_outlier_model": False}
    mp.update(model_parameters or {})
    client = client or ModelClient()
    states = sorted(set(base.postal_code))
    with warnings.catch_warnings():
        warnings.simplefilter("ignore")
        res = client.get_estimates(
            cur.copy(),
            election_id,
            office,
            list(estimands),
            list(prediction_intervals),
            threshold,
            unit_type,
            raw_config=config(election_id, office, states, unit_type),
            preprocessed_data=base.copy(),
            save_output=kw.pop("save_output", []),
            pi_method=pi_method,
            aggregates=list(aggregates),
            features=list(features),
            fixed_effects=fixed_effects if fixed_effects is not None else {},
            model_parameters=mp,
            **kw,
        )
    return client, res


def nonparam_split(alpha, n, n_nonrep=4):
    """real client, nonparametric, one level `alpha`, exactly n modelled reporting units."""
    base = synthetic(n + n_nonrep, seed=3, states=("AA",))
    pct = [100] * n + [0] * n_nonrep
    cur = feed(base, pct)
    out = {"exc": None, "completed": False}
    try:
        run_client(cur, base, prediction_intervals=(alpha,))
        out["completed"] = True
    except Exception as e:  # noqa
        out["exc"] = f"{type(e).__name__}: {e}"
    return out


def partition_replay(unit, policy, estimands, thr=50.0, lo=0.5, hi=2.0, unit_blocklist=(), postal_blocklist=()):
    """Build a 3-unit election whose first unit has the solver's values, run the REAL CombinedDataHandler
    (__init__ + get_units) and report how often that unit occurs in the three frames.
    unit: dict(inBase, inFeed, pc_b, pc_f, baseline_turnout/dem/gop, results_turnout/dem/gop (None = NaN), pev)"""
    from elexmodel.handlers.data.CombinedData import CombinedDataHandler
    from elexmodel.handlers.data.Estimandizer import Estimandizer

    uid = "X_0001"
    base_rows, feed_rows = [], []
    if unit["inBase"]:
        base_rows.append({"postal_code": unit["pc_b"], "geographic_unit_fips": uid, "county_fips": "c0", "baseline_turnout": unit["baseline_turnout"], "baseline_dem": unit["baseline_dem"], "baseline_gop": unit["baseline_gop"]})
    if unit["inFeed"]:
        feed_rows.append({"postal_code": unit["pc_f"], "geographic_unit_fips": uid, "results_turnout": unit["results_turnout"], "results_dem": unit["results_dem"], "results_gop": unit["results_gop"], "percent_expected_vote": unit["pev"]})
    for i, pct in enumerate((100, 10)):
        fid = f"F_{i}"
        base_rows.append({"postal_code": "ZZ", "geographic_unit_fips": fid, "county_fips": "c1", "baseline_turnout": 1000, "baseline_dem": 500, "baseline_gop": 450})
        feed_rows.append({"postal_code": "ZZ", "geographic_unit_fips": fid, "results_turnout": 1100 * pct // 100, "results_dem": 560 * pct // 100, "results_gop": 500 * pct // 100, "percent_expected_vote": pct})
    base = pd.DataFrame(base_rows)
    cur = pd.DataFrame(feed_rows).astype({"results_turnout": float, "results_dem": float, "results_gop": float})
    pre = Estimandizer().add_estimand_baselines(base, {e: e for e in estimands}, False)
    out = {"exc": None}
    try:
        h = CombinedDataHandler(pre, cur, list(estimands), "county", handle_unreporting=policy)
        rep, nonrep, third = h.get_units(thr, lo, hi, list(unit_blocklist), list(postal_blocklist), False, False, 2.0, ["postal_code", "unit"])
        out["count"] = int((rep.geographic_unit_fips == uid).sum() + (nonrep.geographic_unit_fips == uid).sum() + (third.geographic_unit_fips == uid).sum())
        out["where"] = {"rep": int((rep.geographic_unit_fips == uid).sum()), "nonrep": int((nonrep.geographic_unit_fips == uid).sum()), "third": int((third.geographic_unit_fips == uid).sum())}
        cats = list(third[third.geographic_unit_fips == uid].unit_category)
        out["category"] = cats
    except Exception as e:  # noqa
        out["exc"] = f"{type(e).__name__}: {e}"
    return out


def fit_model_retry(kind):
    """real ConformalElectionModel.fit_model with a solver whose FIRST fit call fails with `kind`"""
    import cvxpy
    from elexsolver.QuantileRegressionSolver import QuantileRegressionSolver

    from elexmodel.models.NonparametricElectionModel import NonparametricElectionModel

    calls = {"n": 0}
    real_fit = QuantileRegressionSolver.fit

    reqs = []

    def fit(self, *a, **k):
        calls["n"] += 1
        reqs.append((a, dict(k)))
        if calls["n"] == 1:
            if kind == "SolverError":
                raise cvxpy.error.SolverError("injected")
            raise UserWarning("Solution may be inaccurate. (injected)")
        return real_fit(self, *a, **k)

    QuantileRegressionSolver.fit = fit
    out = {"exc": None, "n_calls": 0}
    try:
        # (a regularised model, weights that do not sum to 1 and differ by five orders of magnitude: the retry must be the
        # SAME request -- matrix, response, weights, quantile, regularisation, intercept -- without weight normalisation)
        m = NonparametricElectionModel({"lambda_": 0.5})
        rng = np.random.default_rng(0)
        X = pd.DataFrame({"intercept": np.ones(12), "f": rng.normal(size=12)})
        y = pd.Series(rng.normal(size=12))
        w = pd.Series(np.concatenate([rng.uniform(1, 3, size=10) * 1000.0, [0.01, 0.02]]))
        qr = QuantileRegressionSolver()
        m.fit_model(qr, X, y, 0.5, w, True)
        out["retry_is_the_same_request"] = False
        if len(reqs) == 2:
            (a1, k1), (a2, k2) = reqs
            same = len(a1) == len(a2) and all(np.array_equal(np.asarray(p_), np.asarray(q_)) for p_, q_ in zip(a1, a2))
            for key in sorted(set(k1) | set(k2)):
                if key == "normalize_weights":
                    continue
                if key not in k1 or key not in k2 or not np.array_equal(np.asarray(k1[key]), np.asarray(k2[key])):
                    same = False
                    out.setdefault("differs", []).append({"argument": key, "first": repr(k1.get(key))[:80], "retry": repr(k2.get(key))[:80]})
            same = same and np.array_equal(np.asarray(a1[0]), X.values) and np.array_equal(np.asarray(k1.get("weights")), w.values) and float(k1.get("lambda_")) == 0.5 and k2.get("normalize_weights") is False
            out["retry_is_the_same_request"] = bool(same)
        # the solver object the CALLER holds must be the one that ends up fitted (it is what predict() is called on)
        out["callers_solver_is_fitted"] = bool(len(np.asarray(qr.coefficients).ravel()) > 0)
        if out["callers_solver_is_fitted"]:
            qr.predict(X.values)
    except Exception as e:  # noqa
        out["exc"] = f"{type(e).__name__}: {e}"
    finally:
        QuantileRegressionSolver.fit = real_fit
    out["n_calls"] = calls["n"]
    return out


def nonreporting_bounds(estimand, pev, value, lo_b, hi_b, err=0.5):
    from elexmodel.models.BootstrapElectionModel import BootstrapElectionModel

    m = BootstrapElectionModel({"features": ["baseline_normalized_margin"], "y_unobserved_lower_bound": lo_b, "y_unobserved_upper_bound": hi_b, "z_unobserved_lower_bound": lo_b, "z_unobserved_upper_bound": hi_b, "percent_expected_vote_error_bound": err})
    df = pd.DataFrame({"percent_expected_vote": [pev], estimand: [value]})
    out = {"exc": None}
    try:
        lo, hi = m._generate_nonreporting_bounds(df, estimand)
        out["lo"], out["hi"] = float(lo[0, 0]), float(hi[0, 0])
    except Exception as e:  # noqa
        out["exc"] = f"{type(e).__name__}: {e}"
    return out


def bootstrap_classification_unexpected():
    """bootstrap estimator, county_classification aggregate, one unexpected and one blocklisted unit"""
    base = synthetic(40, seed=1)
    cur = feed(base, [100] * 25 + [40] * 15)
    extra = cur.iloc[[0]].copy()
    extra["geographic_unit_fips"] = "AA00_9999"
    cur2 = pd.concat([cur, extra], ignore_index=True)
    blk = [base.geographic_unit_fips[3]]
    out = {"exc": None}
    try:
        c, res = run_client(cur2, base, estimands=("margin",), pi_method="bootstrap", prediction_intervals=(0.9,), aggregates=("postal_code", "county_classification", "unit"), features=("baseline_normalized_margin",), model_parameters={"B": 20, "unit_blocklist": blk})
        cd = res["classification_data"]
        u = res["unit_data"].merge(base[["geographic_unit_fips", "county_classification"]], on="geographic_unit_fips")
        g = u[u.unit_category == "expected"].groupby(["postal_code", "county_classification"])[["pred_margin", "pred_turnout"]].sum().reset_index()
        m = cd.merge(g, on=["postal_code", "county_classification"], suffixes=("", "_units"))
        out["max_ratio_gap"] = float(np.abs(m.pred_margin - m.pred_margin_units / m.pred_turnout_units).max())
    except Exception as e:  # noqa
        out["exc"] = f"{type(e).__name__}: {e}"
    return out


def national_summary_orders(orders=(("postal_code", "unit"), ("postal_code", "county_fips", "unit"), ("county_fips", "postal_code", "unit"), ("postal_code", "county_classification", "county_fips", "unit"))):
    """bootstrap run followed by the national summary, for several lists/orders of requested aggregates:
    the summary must not fail and must be the same for all of them"""
    base = synthetic(40, seed=1)
    cur = feed(base, [100] * 25 + [40] * 15)
    out = {"exc": None, "summaries": []}
    try:
        for aggs in orders:
            c, res = run_client(cur, base, estimands=("margin",), pi_method="bootstrap", prediction_intervals=(0.9,), aggregates=aggs, features=("baseline_normalized_margin",), model_parameters={"B": 30})
            s = c.get_national_summary_votes_estimates({"AA": 3, "BB": 5}, 10, [0.9])
            out["summaries"].append(s.values.tolist())
        out["all_equal"] = all(x == out["summaries"][0] for x in out["summaries"])
    except Exception as e:  # noqa
        out["exc"] = f"{type(e).__name__}: {e}"
    return out


def called_and_stopped():
    """bootstrap: contest BB called for the right-hand party AND stop-listed, with a negative interval"""
    base = synthetic(40, seed=1)
    cur = feed(base, [100] * 25 + [40] * 15)
    cur.loc[cur.postal_code == "BB", "results_dem"] = (cur.loc[cur.postal_code == "BB", "results_dem"] * 0.5).astype(int)
    out = {"exc": None}
    try:
        c, res = run_client(cur, base, estimands=("margin",), pi_method="bootstrap", prediction_intervals=(0.9,), aggregates=("postal_code", "unit"), features=("baseline_normalized_margin",), model_parameters={"B": 30}, rhs_called_contests=["BB"], stop_model_call=["BB"])
        s = res["state_data"].set_index("postal_code").loc["BB"]
        out.update(pred=float(s["pred_margin"]), lower=float(s["lower_0.9_margin"]), upper=float(s["upper_0.9_margin"]))
    except Exception as e:  # noqa
        out["exc"] = f"{type(e).__name__}: {e}"
    return out


def national_summary_function(correlated, hard):
    """function-level replay of get_national_summary_estimates: two contests (weights 3 and 5), the first predicted
    narrowly for the right-hand party with all its bootstrap mass on that side"""
    from elexmodel.models.BootstrapElectionModel import BootstrapElectionModel

    B = 20
    m = BootstrapElectionModel({"features": ["baseline_normalized_margin"], "B": B, "agg_model_hard_threshold": hard, "national_summary_correlation": correlated})
    rng = np.random.default_rng(0)
    m.aggregate_pred_margin = np.array([[-0.01], [0.2]])
    noise = rng.normal(0, 0.01, size=(2, B))
    m.divided_error_B_1 = noise + np.array([[-0.05], [0.0]])
    m.divided_error_B_2 = noise * 0.5
    m.called_contests = np.array([[-1], [-1]])
    m.stop_model_call = np.array([[False], [False]])
    out = {"exc": None}
    try:
        r = m.get_national_summary_estimates({"A": 3, "B": 5}, 0, 0.9)["margin"]
        out.update(pred=float(r[0]), lower=float(r[1]), upper=float(r[2]))
    except Exception as e:  # noqa
        out["exc"] = f"{type(e).__name__}: {e}"
    return out


def gaussian_twice():
    """two gaussian runs with equal arguments (fresh clients): the tables must be identical"""
    base = synthetic(60, seed=1)
    cur = feed(base, [100] * 40 + [35] * 20)
    outs = []
    for _ in range(2):
        c, r = run_client(cur, base, estimands=("turnout",), pi_method="gaussian", prediction_intervals=(0.9,), aggregates=("postal_code", "county_classification", "unit"))
        outs.append(r)
    same = all(outs[0][k].equals(outs[1][k]) for k in outs[0])
    return {"identical": bool(same)}


class _FakeVersionClient:
    """scripted list_object_versions: newest-first listing, given page sizes"""

    def __init__(self, times, pages):
        # (entity tags as S3 reports them: byte-identical uploads share one -- here versions 0 and 2, and 1 and 3)
        self.vers = [{"VersionId": f"v{i}", "LastModified": t, "Size": 1, "Key": "k", "ETag": f'"etag{i % 2 if i < 4 else i}"'} for i, t in enumerate(times)]
        self.pages = list(pages) or [1000]
        self.n_calls = 0

    def list_object_versions(self, Bucket=None, Prefix=None, KeyMarker=None, VersionIdMarker=None, **kw):
        m = 0 if KeyMarker is None else int(KeyMarker)
        p = max(1, self.pages[min(self.n_calls, len(self.pages) - 1)])
        self.n_calls += 1
        page = self.vers[m : m + p]
        resp = {"IsTruncated": m + p < len(self.vers), "NextKeyMarker": str(m + p), "NextVersionIdMarker": str(m + p)}
        if page:
            resp["Versions"] = list(page)
        return resp


def list_versions_replay(times, pages, start, end, marker=0):
    from elexmodel.handlers.s3 import S3VersionUtil

    u = S3VersionUtil.__new__(S3VersionUtil)
    u.bucket_name = "b"
    u.start_date, u.end_date, u.tz = start, end, "UTC"
    u.s3_client = _FakeVersionClient(times, pages)
    out = {"exc": None}
    try:
        kw = {} if marker == 0 else {"KeyMarker": str(marker), "VersionIdMarker": str(marker)}
        got = [v["VersionId"] for v in u.list_versions("p", **kw)]
        want = [f"v{i}" for i, t in enumerate(times) if i >= marker and (start is None or t >= start) and (end is None or t <= end)]
        out.update(got=got, want=want, equal=got == want)
    except Exception as e:  # noqa
        out["exc"] = f"{type(e).__name__}: {e}"
    return out


def blocklisted_count_changes_other_categories(factor=50):
    """nonparametric, outlier models on: multiply the count of ONE excluded reporting unit -- excluded through the unit
    blocklist, and (second scenario) through a blocklisted STATE with several reporting units; no other unit may move"""
    out = {"exc": None, "changed_other_units": 0, "scenarios": {}}
    try:
        for via in ("unit_blocklist", "postal_code_blocklist"):
            if via == "unit_blocklist":
                base = synthetic(80, seed=5, states=("AA",))
                cur = feed(base, [100] * 60 + [30] * 20, seed=2)
                victim = base.geographic_unit_fips[7]
                params = {"unit_blocklist": [victim]}
            else:
                base = synthetic(90, seed=6, states=("AA", "BB"))
                cur = feed(base, [100] * 70 + [30] * 20, seed=3)
                bb = base[base.postal_code == "BB"].geographic_unit_fips.tolist()
                victim = bb[2]
                params = {"postal_code_blocklist": ["BB"]}
            cats = []
            for f in (1, factor):
                c2 = cur.copy()
                m = c2.geographic_unit_fips == victim
                for col in ("results_turnout", "results_dem", "results_gop"):
                    c2.loc[m, col] = c2.loc[m, col] * f
                _, r = run_client(c2, base, estimands=("turnout",), prediction_intervals=(0.7,), model_parameters=dict({"fit_margin_outlier_model": False, "fit_turnout_outlier_model": True}, **params))
                cats.append(r["unit_data"].set_index("geographic_unit_fips")["unit_category"])
            a, b = cats
            others = [i for i in a.index if i != victim]
            n = int((a.loc[others] != b.loc[others]).sum())
            out["scenarios"][via] = n
            out["changed_other_units"] += n
    except Exception as e:  # noqa
        out["exc"] = f"{type(e).__name__}: {e}"
    return out


def get_units_direct(unit, thr, lo, hi, unit_blocklisted, state_blocklisted, flag_turnout, flag_margin, fit_t, fit_m, many, estimands=("turnout",)):
    """REAL CombinedDataHandler.get_units on a handler whose joined table holds the solver's unit (plus clean filler
    units: 2, or 22 when the outlier models are enabled by count).  The outlier model itself is stubbed by the
    contract the proof used (it flags exactly the rows the model says).  Returns where the unit ended up."""
    from elexmodel.handlers.data.CombinedData import CombinedDataHandler

    uid = "X_0001"
    cols = ["postal_code", "geographic_unit_fips", "percent_expected_vote", "baseline_weights", "turnout_factor", "results_weights", "results_turnout", "last_election_results_turnout", "results_normalized_margin", "results_margin", "last_election_results_margin"]
    rows, feed = [], []
    if unit["inData"]:
        rows.append({"postal_code": "XX", "geographic_unit_fips": uid, "percent_expected_vote": unit["pev"], "baseline_weights": unit["bw"], "turnout_factor": unit["tf"], "results_weights": 10.0, "results_turnout": 10.0, "last_election_results_turnout": 11.0, "results_normalized_margin": 0.1, "results_margin": 1.0, "last_election_results_margin": 2.0})
    if unit["inFeed"]:
        feed.append({"postal_code": "XX", "geographic_unit_fips": uid, "percent_expected_vote": unit["pev"], "results_turnout": 10.0})
    for i in range(22 if many else 2):
        # (the filler below the threshold comes BEFORE the unit in the joined table: positions in the reporting frame are then
        # shifted against positions in the joined table)
        (rows.insert if i == 0 else (lambda _p, r_: rows.append(r_)))(0, {"postal_code": "ZZ", "geographic_unit_fips": f"F_{i}", "percent_expected_vote": 1e9 if i else -1.0, "baseline_weights": 100.0, "turnout_factor": (lo + hi) / 2 if hi > lo else 1.0, "results_weights": 100.0, "results_turnout": 100.0, "last_election_results_turnout": 101.0, "results_normalized_margin": 0.0, "results_margin": 0.0, "last_election_results_margin": 1.0})
        feed.append({"postal_code": "ZZ", "geographic_unit_fips": f"F_{i}", "percent_expected_vote": 1e9 if i else -1.0, "results_turnout": 100.0})
    h = CombinedDataHandler.__new__(CombinedDataHandler)
    h.estimands = list(estimands)
    h.data = pd.DataFrame(rows, columns=cols)
    h.current_data = pd.DataFrame(feed, columns=["postal_code", "geographic_unit_fips", "percent_expected_vote", "results_turnout"])
    h.preprocessed_data = h.data
    h.geographic_unit_type = "county"
    h.n_minimum_for_outlier_detection_model = 20

    def stub(reporting_units, response_variable, z):
        flag = flag_turnout if response_variable == "turnout_factor" else flag_margin
        return reporting_units[(reporting_units.geographic_unit_fips == uid) & flag].copy()

    h._fit_outlier_detection_model = stub
    out = {"exc": None}
    try:
        rep, non, third = h.get_units(thr, lo, hi, [uid] if unit_blocklisted else [], ["XX"] if state_blocklisted else [], fit_m, fit_t, 2.0, ["postal_code", "unit"])
        where = [k for k, f in (("reporting", rep), ("nonreporting", non), ("third", third)) if (f.geographic_unit_fips == uid).any()]
        out["where"] = where
        out["category"] = [str(x) for f in (rep, non, third) for x in f.loc[f.geographic_unit_fips == uid, "unit_category"]]
        out["reporting_flag"] = [int(x) for f in (rep, non, third) for x in f.loc[f.geographic_unit_fips == uid, "reporting"]]
        # the flag over ALL rows: 1 on every row of the fitting frame, 0 on every other row
        out["flags_ok"] = bool((rep.reporting == 1).all() and (non.reporting == 0).all() and (third.reporting == 0).all())
    except Exception as e:  # noqa
        out["exc"] = f"{type(e).__name__}: {e}"
    return out


def aggregate_replay(keys, estimator="nonparametric", alpha=0.9):
    """REAL get_aggregate_predictions (+ nonparametric aggregate intervals) on a tiny hand-built election that has
    every kind of unit (reporting, outstanding with partial counts, unexpected with / without a county, non-modelled,
    groups that exist only through third-frame or only through outstanding units); identities of C01/C02/C03/C11
    are recomputed with plain python loops from the statement.  Two labellings are run: letters, and all-digit labels
    of different lengths (numeric order != string order), and nothing is assumed about the ORDER of the estimates
    table: row i of the interval series must belong to the group named on row i of the estimates table."""
    from elexmodel.models.ConformalElectionModel import PredictionIntervals
    from elexmodel.models.NonparametricElectionModel import NonparametricElectionModel

    E = "turnout"
    lo_s, up_s = f"lower_{alpha}_{E}", f"upper_{alpha}_{E}"
    out = {"exc": None, "problems": []}
    labellings = [
        {"c1": "c1", "c2": "c2", "c3": "c3", "c4": "c4", "c9": "c9", "d1": "d1", "d2": "d2", "d3": "d3", "d9": "d9"},
        {"c1": "10", "c2": "9", "c3": "2", "c4": "100", "c9": "31", "d1": "12", "d2": "3", "d3": "1", "d9": "20"},
        # one state code is a PREFIX of the other: the order of the key tuples differs from the order of the "_"-joined keys
        # ("A" < "AB" but "AB_x" < "A_y" because "_" sorts after the letters)
        {"c1": "c1", "c2": "c2", "c3": "c3", "c4": "c4", "c9": "c9", "d1": "d1", "d2": "d2", "d3": "d3", "d9": "d9", "AA": "A", "BB": "AB"},
    ]
    for lab in labellings:
        def unit(i, st, cty, cls, dist, res, rep, pred=None, lo=None, up=None, cat="expected"):
            return {"postal_code": lab.get(st, st), "county_fips": lab[cty], "county_classification": cls, "district": lab[dist], "geographic_unit_fips": f"u{i}", f"results_{E}": res, "reporting": rep, f"pred_{E}": res if pred is None else pred, lo_s: res if lo is None else lo, up_s: res if up is None else up, "unit_category": cat}

        # (rows listed so that groups FIRST APPEAR in an order that is not their sorted key order)
        rep = pd.DataFrame([unit(3, "BB", "c3", "urban", "d2", 70, 1), unit(2, "AA", "c1", "rural", "d1", 50, 1), unit(1, "AA", "c1", "urban", "d1", 100, 1)])
        non = pd.DataFrame([unit(6, "BB", "c4", "rural", "d3", 5, 0, 30, 20, 44), unit(5, "AA", "c2", "rural", "d2", 0, 0, 90, 80, 120), unit(4, "AA", "c1", "urban", "d1", 10, 0, 40, 35, 60)])
        third = pd.DataFrame([unit(9, "BB", "c3", "urban", "d2", 11, 0, cat="non-modeled: blocklisted"), unit(8, "BB", "c9", np.nan, "d9", 3, 0, cat="unexpected"), unit(7, "AA", "c1", np.nan, "d1", 7, 0, cat="unexpected")])
        m = NonparametricElectionModel({})
        try:
            est = m.get_aggregate_predictions(rep, non, third, list(keys), E)
            pi = m.get_aggregate_prediction_intervals(rep, non, third, list(keys), alpha, PredictionIntervals(None, None, None), E)
        except Exception as e:  # noqa
            out["exc"] = f"{type(e).__name__}: {e}"
            return out
        cls = "county_classification" in keys
        groups = {}
        for fr, kind in ((rep, "R"), (non, "N"), (third, "T")):
            for _, r in fr.iterrows():
                if kind == "T" and cls:
                    continue
                k = tuple(r[c] for c in keys)
                if any(isinstance(x, float) and x != x for x in k):
                    continue
                g = groups.setdefault(k, {"res": 0, "pred": 0, "lo": 0, "up": 0, "rep": 0})
                g["res"] += r[f"results_{E}"]
                g["pred"] += r[f"pred_{E}"]
                g["lo"] += r[lo_s]
                g["up"] += r[up_s]
                g["rep"] += r["reporting"]
        got = [tuple(x) for x in est[list(keys)].values.tolist()]
        lower, upper = np.asarray(pi.lower, dtype=float).ravel(), np.asarray(pi.upper, dtype=float).ravel()
        if sorted(got) != sorted(groups) or len(lower) != len(got) or len(upper) != len(got):
            out["problems"].append({"rows": got, "expected_groups": sorted(groups), "interval_rows": [int(len(lower)), int(len(upper))]})
        else:
            for i, k in enumerate(got):
                g = groups[k]
                obs = (est[f"results_{E}"].iloc[i], est[f"pred_{E}"].iloc[i], est["reporting"].iloc[i], lower[i], upper[i])
                exp = (g["res"], g["pred"], g["rep"], g["lo"], g["up"])
                if any(abs(a - b) > 1e-9 for a, b in zip(obs, exp)):
                    out["problems"].append({"group": k, "observed(results,pred,reporting,lower,upper)": [float(x) for x in obs], "expected": [float(x) for x in exp]})
    out["problems"] = out["problems"][:4]
    out["ok"] = not out["problems"]
    return out


def gate_replay(alphas, n, pi_method="nonparametric"):
    """REAL client: raises the dedicated error iff n < max over the requested levels of the model's minimum"""
    from elexmodel.client import ModelNotEnoughSubunitsException
    from elexmodel.models.BootstrapElectionModel import BootstrapElectionModel
    from elexmodel.models.GaussianElectionModel import GaussianElectionModel
    from elexmodel.models.NonparametricElectionModel import NonparametricElectionModel

    n = int(max(0, min(n, 400)))
    cls = {"nonparametric": NonparametricElectionModel, "gaussian": GaussianElectionModel}[pi_method]
    need = max(cls({}).get_minimum_reporting_units(a) for a in alphas)
    base = synthetic(n + 4, seed=3, states=("AA",))
    cur = feed(base, [100] * n + [0] * 4)
    out = {"exc": None, "raised_dedicated": False, "need": float(need), "n": n}
    try:
        run_client(cur, base, prediction_intervals=tuple(alphas), pi_method=pi_method)
    except ModelNotEnoughSubunitsException:
        out["raised_dedicated"] = True
    except Exception as e:  # noqa
        out["exc"] = f"{type(e).__name__}: {e}"
    out["ok"] = out["exc"] is None and out["raised_dedicated"] == (n < need)
    return out


def fit_model_twice(kind="SolverError"):
    """REAL fit_model, two fits on ONE model object, both failing on their first attempt"""
    import cvxpy
    from elexsolver.QuantileRegressionSolver import QuantileRegressionSolver

    from elexmodel.models.NonparametricElectionModel import NonparametricElectionModel

    real_fit = QuantileRegressionSolver.fit
    log = []

    def fit(self, *a, **k):
        log.append(k.get("normalize_weights", True))
        if k.get("normalize_weights", True):
            if kind == "SolverError":
                raise cvxpy.error.SolverError("injected")
            raise UserWarning("Solution may be inaccurate. (injected)")
        return real_fit(self, *a, **k)

    QuantileRegressionSolver.fit = fit
    out = {"exc": None}
    try:
        m = NonparametricElectionModel({})
        rng = np.random.default_rng(0)
        X = pd.DataFrame({"intercept": np.ones(12), "f": rng.normal(size=12)})
        y, w = pd.Series(rng.normal(size=12)), pd.Series(rng.uniform(1, 3, size=12))
        m.fit_model(QuantileRegressionSolver(), X, y, 0.5, w, True)
        m.fit_model(QuantileRegressionSolver(), X, y, 0.25, w, True)
    except Exception as e:  # noqa
        out["exc"] = f"{type(e).__name__}: {e}"
    finally:
        QuantileRegressionSolver.fit = real_fit
    out["attempts"] = log
    out["ok"] = out["exc"] is None and log == [True, False, True, False]
    return out


def schema_replay(n_estimands=2, levels=(0.9, 0.7)):
    """REAL client: tables of a multi-estimand, non-ascending multi-level request vs. single requests"""
    ests = ["turnout", "dem", "gop"][:n_estimands]
    base = synthetic(60, seed=1)
    cur = feed(base, [100] * 40 + [35] * 20)
    out = {"exc": None, "problems": []}
    try:
        _, r = run_client(cur, base, estimands=tuple(ests), prediction_intervals=tuple(levels), aggregates=("postal_code", "unit"))
        for tab, keys in (("unit_data", ["postal_code", "geographic_unit_fips", "reporting", "unit_category"]), ("state_data", ["postal_code", "reporting"])):
            cols = list(r[tab].columns)
            for k in keys:
                if cols.count(k) != 1:
                    out["problems"].append({"table": tab, "column": k, "columns": cols})
        for e in ests:
            for a in levels:
                _, r1 = run_client(cur, base, estimands=(e,), prediction_intervals=(a,), aggregates=("postal_code", "unit"))
                for tab in ("unit_data", "state_data"):
                    for s in ("lower", "upper"):
                        c = f"{s}_{a}_{e}"
                        if c not in r[tab].columns or not np.array_equal(r[tab][c].values, r1[tab][c].values):
                            out["problems"].append({"table": tab, "column": c, "multi": r[tab].get(c, pd.Series(dtype=float)).tolist()[:3], "single": r1[tab][c].tolist()[:3]})
    except Exception as e:  # noqa
        out["exc"] = f"{type(e).__name__}: {e}"
    out["ok"] = out["exc"] is None and not out["problems"]
    return out


def conformance_get_units(payload):
    """real get_units on a concrete election described by the conformance driver (outlier model stubbed by flags)"""
    from elexmodel.handlers.data.CombinedData import CombinedDataHandler

    units, params = payload["units"], payload["params"]
    rows = [{"postal_code": u["postal"], "geographic_unit_fips": u["id"], "percent_expected_vote": u["pev"], "baseline_weights": float(u["bw"]), "turnout_factor": u["tf"], "results_weights": 1.0, "results_turnout": float(u["res"]), "last_election_results_turnout": 5.0} for u in units if u["inData"]]
    feed = [{"postal_code": u["postal"], "geographic_unit_fips": u["id"], "percent_expected_vote": u["pev"], "results_turnout": float(u["res"])} for u in units if u["inFeed"]]
    h = CombinedDataHandler.__new__(CombinedDataHandler)
    h.estimands = ["turnout"]
    h.data = pd.DataFrame(rows, columns=["postal_code", "geographic_unit_fips", "percent_expected_vote", "baseline_weights", "turnout_factor", "results_weights", "results_turnout", "last_election_results_turnout"])
    h.current_data = pd.DataFrame(feed, columns=["postal_code", "geographic_unit_fips", "percent_expected_vote", "results_turnout"])
    h.preprocessed_data = h.data
    h.geographic_unit_type = "county"
    h.n_minimum_for_outlier_detection_model = 10**9  # the outlier model is exercised separately (stub): keep it off here
    rep, non, third = h.get_units(params["thr"], params["lo"], params["hi"], params["ublk"], params["pblk"], False, False, 2.0, ["postal_code", "unit"])
    where = {}
    for k, f in (("reporting", rep), ("nonreporting", non), ("third", third)):
        for i in f.geographic_unit_fips:
            where.setdefault(i, []).append(k)
    cats = {i: c for i, c in zip(third.geographic_unit_fips, third.unit_category)}
    return {"where": where, "categories": cats}


def gaussian_cascade_replay(key="county_fips"):
    """REAL GaussianModel.fit at a two-level aggregate, recursive calls recorded through a subclass: the call at the
    same level must receive exactly the calibration / reporting / outstanding rows of the groups holding at least
    T = min(10, #calibration) calibration units (a group of exactly T units is large enough); the call one level
    up gets everything."""
    import numpy as np
    import pandas as pd

    from elexmodel.distributions.GaussianModel import GaussianModel

    sizes = {"g10": 10, "g03": 3, "g25": 25, "g11": 11, "g00": 0}
    rows = []
    i = 0
    for g, n in sizes.items():
        for _ in range(n):
            rows.append({"postal_code": "AA", key: g, "geographic_unit_fips": f"u{i}", "last_election_results_turnout": 100 + i, "lower_bounds": -0.1 + 0.001 * i, "upper_bounds": 0.1 + 0.002 * i})
            i += 1
    cal = pd.DataFrame(rows)
    non = pd.DataFrame([{"postal_code": "AA", key: g, "geographic_unit_fips": f"n{j}{k}", "last_election_results_turnout": 50} for j, g in enumerate(sizes) for k in range(2)])
    rep = cal.copy()
    calls = []

    class Rec(GaussianModel):
        def fit(self, conformalization_data, reporting_units, nonreporting_units, estimand, aggregate=[], **kw):
            calls.append((list(aggregate), sorted(conformalization_data.geographic_unit_fips), sorted(reporting_units.geographic_unit_fips), sorted(nonreporting_units.geographic_unit_fips), kw.get("top_level", True)))
            return super().fit(conformalization_data, reporting_units, nonreporting_units, estimand, aggregate=aggregate, **kw)

    out = {"exc": None}
    try:
        Rec({"beta": 1, "winsorize": False, "save_conformalization": False}).fit(cal, rep, non, "turnout", aggregate=["postal_code", key], alpha=0.9)
    except Exception as e:  # noqa
        out["exc"] = f"{type(e).__name__}: {e}"
        out["ok"] = False
        return out
    T = min(10, len(cal))
    big = {g for g, n in sizes.items() if n >= T}
    want_cal = sorted(cal[cal[key].isin(big)].geographic_unit_fips)
    want_non = sorted(non[non[key].isin(big)].geographic_unit_fips)
    second = [c for c in calls[1:] if c[0] == ["postal_code", key]]
    parent = [c for c in calls[1:] if c[0] == ["postal_code"]]
    out["calls"] = [(c[0], len(c[1]), len(c[2]), len(c[3])) for c in calls]
    out["ok"] = bool(second and parent and second[0][1] == want_cal and second[0][2] == want_cal and second[0][3] == want_non and parent[0][1] == sorted(cal.geographic_unit_fips) and parent[0][3] == sorted(non.geographic_unit_fips))
    return out


# ---- gaussian aggregate intervals: scenario builder + oracle written from the statement (also used by bounded/c15_gaussian.py)
def gaussian_scene(layout, nonrep_groups, big_partial, rng, key="county_fips"):
    """layout: {(state, sub): n_calibration}; nonrep_groups: list of (state, sub) with outstanding units"""
    import numpy as np
    import pandas as pd

    E = "turnout"
    LAST, RES = f"last_election_results_{E}", f"results_{E}"
    rows = []
    for (st, sub), n in layout.items():
        for i in range(n):
            last = float(rng.integers(300, 3000))
            rows.append({"postal_code": st, key: sub, "geographic_unit_fips": f"c_{st}{sub}_{i}", LAST: last, "lower_bounds": float(rng.normal(0.02, 0.05)), "upper_bounds": float(rng.normal(0.02, 0.05))})
    conf = pd.DataFrame(rows, columns=["postal_code", key, "geographic_unit_fips", LAST, "lower_bounds", "upper_bounds"])
    rep = conf[["postal_code", key, "geographic_unit_fips", LAST]].copy()
    rep[RES] = np.round(rep[LAST] * 1.05)
    rep["reporting"] = 1
    nr = []
    for (st, sub) in nonrep_groups:
        for i in range(2):
            last = float(rng.integers(300, 3000))
            partial = np.round(last * (2.5 if big_partial and i == 0 else 0.2))
            nr.append({"postal_code": st, key: sub, "geographic_unit_fips": f"n_{st}{sub}_{i}", LAST: last, RES: partial, "reporting": 0})
    # (the outstanding units are listed with the LAST group first: group order of first appearance != sorted key order)
    non = pd.DataFrame(nr[::-1], columns=["postal_code", key, "geographic_unit_fips", LAST, RES, "reporting"])
    unx = pd.DataFrame({"postal_code": ["AA"], key: ["x9"], "geographic_unit_fips": ["x9_1"], RES: [17.0], "reporting": [0]})
    return conf, rep, non, unx


def gaussian_oracle(conf, rep, non, unx, aggregate, alpha, lo_u, hi_u):
    """the statement of C15, computed with plain loops"""
    import numpy as np
    import pandas as pd
    from scipy import stats

    from elexmodel.utils import math_utils

    E = "turnout"
    LAST, RES = f"last_election_results_{E}", f"results_{E}"

    def stats_of(cal):
        w = (cal[LAST] / cal[LAST].sum()).to_numpy()
        return dict(
            mu_lo=math_utils.weighted_median(cal.lower_bounds.values, w),
            mu_hi=math_utils.weighted_median(cal.upper_bounds.values, w),
            s_lo=math_utils.boot_sigma(cal.lower_bounds.values, conf=(3 + alpha) / 4, seed=4191),
            s_hi=math_utils.boot_sigma(cal.upper_bounds.values, conf=(3 + alpha) / 4, seed=4191),
            k=math_utils.compute_inflate(cal[LAST]),
        )

    T = min(10, len(conf))
    out = {}
    keys = sorted(set(map(tuple, non[aggregate].values.tolist())) | set(map(tuple, rep[aggregate].values.tolist())) | (set(map(tuple, unx[aggregate].values.tolist())) if "county_classification" not in aggregate else set()))
    for g in keys:
        mn = (non[aggregate].apply(tuple, axis=1) == g) if len(non) else pd.Series([], dtype=bool)
        counted = rep.loc[rep[aggregate].apply(tuple, axis=1) == g, RES].sum() + (unx.loc[unx[aggregate].apply(tuple, axis=1) == g, RES].sum() if "county_classification" not in aggregate else 0)
        if not mn.any():
            out[g] = (counted, counted)
            continue
        cal_g = conf[conf[aggregate].apply(tuple, axis=1) == g]
        if len(cal_g) >= T:
            cal = cal_g
        else:
            cal_s = conf[conf["postal_code"] == g[0]]
            cal = cal_s if (len(aggregate) > 1 and len(cal_s) >= T) else conf
        s = stats_of(cal)
        wts = non.loc[mn, LAST].to_numpy()
        q = (3 + alpha) / 4
        sw, ssw = wts.sum(), (wts**2).sum()
        lb = (wts * lo_u[mn.to_numpy()]).sum() - stats.norm.ppf(q, loc=sw * s["mu_lo"], scale=s["s_lo"] * np.sqrt(ssw + s["k"] * sw**2))
        ub = (wts * hi_u[mn.to_numpy()]).sum() + stats.norm.ppf(q, loc=sw * s["mu_hi"], scale=s["s_hi"] * np.sqrt(ssw + s["k"] * sw**2))
        partial = non.loc[mn, RES].sum()
        out[g] = (np.round(max(lb + sw, partial) + counted), np.round(max(ub + sw, partial) + counted))
    return keys, out


def gaussian_aggregate_replay(keys, alpha=0.9):
    """REAL GaussianElectionModel.get_aggregate_predictions / get_aggregate_prediction_intervals on a few layouts that
    have, in one table, a group served by its own model, one served by its state, one served by all units, and a group
    that only has outstanding units -- compared with the oracle written from the statement"""
    import numpy as np

    from elexmodel.models.ConformalElectionModel import PredictionIntervals
    from elexmodel.models.GaussianElectionModel import GaussianElectionModel

    E = "turnout"
    keys = list(keys)
    key = keys[-1] if len(keys) > 1 else "county_fips"
    rng = np.random.default_rng(5)
    layouts = [
        {("AA", "a1"): 25, ("AA", "a2"): 3, ("BB", "b1"): 3},
        {("AA", "a1"): 10, ("AA", "a2"): 0, ("BB", "b1"): 11},
        {("AA", "a1"): 3, ("AA", "a2"): 3},
        {("AA", "a1"): 12, ("AA", "a2"): 14, ("BB", "b1"): 2},
        {("AA", "a1"): 3, ("BB", "b1"): 25},  # the state served by the fallback sorts BEFORE the one with its own model
    ]
    out = {"exc": None, "ok": True, "mismatches": []}
    for li, layout in enumerate(layouts):
        groups = list(layout)
        # (third alternative: NOTHING outstanding, with an unexpected unit in a group of its own)
        for nonrep_groups in (groups, groups[:1] + [("AA", "only_outstanding")], []):
            for big in (False, True):
                conf, rep, non, unx = gaussian_scene(layout, nonrep_groups, big, rng, key=key)
                m = GaussianElectionModel({"save_conformalization": False, "election_id": "e", "office": "S", "geographic_unit_type": "county"})
                lo_u, hi_u = rng.normal(-0.05, 0.02, len(non)), rng.normal(0.08, 0.02, len(non))
                m.alpha_to_nonreporting_lower_bounds[alpha] = lo_u.copy()
                m.alpha_to_nonreporting_upper_bounds[alpha] = hi_u.copy()
                for f_ in (rep, non, unx):
                    f_[f"pred_{E}"] = f_[f"results_{E}"]
                try:
                    est = m.get_aggregate_predictions(rep, non, unx, keys, E)
                    pi = m.get_aggregate_prediction_intervals(rep, non, unx, keys, alpha, PredictionIntervals(None, None, conf), E)
                except Exception as e:  # noqa
                    out["exc"] = f"{type(e).__name__}: {e}"
                    out["ok"] = False
                    return out
                gk, exp = gaussian_oracle(conf, rep, non, unx, keys, alpha, lo_u, hi_u)
                got_keys = list(map(tuple, est[keys].values.tolist()))
                lower, upper = np.asarray(pi[0], dtype=float), np.asarray(pi[1], dtype=float)
                if got_keys != gk or len(lower) != len(gk) or not (np.isfinite(lower).all() and np.isfinite(upper).all()):
                    out["ok"] = False
                    out["mismatches"].append({"layout": li, "rows": [list(k) for k in got_keys], "expected_rows": [list(k) for k in gk]})
                    continue
                for i, g in enumerate(gk):
                    el, eu = exp[g]
                    if abs(lower[i] - el) > 1 + 1e-6 * abs(el) or abs(upper[i] - eu) > 1 + 1e-6 * abs(eu):
                        out["ok"] = False
                        out["mismatches"].append({"layout": li, "group": list(g), "observed": [float(lower[i]), float(upper[i])], "expected": [float(el), float(eu)]})
                        break
    out["mismatches"] = out["mismatches"][:4]
    return out


# ---- C16: the Featurizer clause checker (also used by bounded/c16_featurizer.py) and a battery replay
def featurizer_clauses(df, n_train, features, fixed_effects, states_sep=()):
    """the REAL Featurizer driven the way the models drive it, checked clause by clause against the statement of C16;
    returns None or a dict describing the violated clause"""
    import numpy as np

    from elexmodel.handlers.data.Featurizer import Featurizer

    fz = Featurizer(list(features), fixed_effects if isinstance(fixed_effects, list) else dict(fixed_effects), states_for_separate_model=list(states_sep))
    x_all = fz.prepare_data(df, center_features=True, scale_features=False, add_intercept=True)
    fit = fz.filter_to_active_features(x_all[:n_train])
    hold = fz.generate_holdout_data(x_all[n_train:])
    if list(fit.columns) != list(hold.columns):
        return {"clause": "same columns in the same order", "fit": list(fit.columns), "predict": list(hold.columns)}
    cols = list(fit.columns)
    if cols[0] != "intercept":
        return {"clause": "intercept first", "columns": cols}
    ranks = [0 if c.startswith("intercept") else 1 if c.startswith("baseline_normalized_margin") else 2 for c in cols]
    if ranks != sorted(ranks):
        return {"clause": "intercept, then baseline margin terms, then the rest", "columns": cols}
    if len(fit) != n_train or len(hold) != len(df) - n_train:
        return {"clause": "row preserving", "rows": [len(fit), len(hold)]}
    fitting = df.iloc[:n_train]
    fitting = fitting[(fitting.reporting == 1) & (fitting.unit_category == "expected")]
    fe_names = fixed_effects if isinstance(fixed_effects, list) else list(fixed_effects)
    for fe in fe_names:
        sel = None if isinstance(fixed_effects, list) or fixed_effects[fe] == "all" or "all" in fixed_effects[fe] else list(fixed_effects[fe])
        pool = (lambda s: s if sel is None else np.where(s.isin(sel), s, "other"))
        lv_fit = sorted(set(pool(fitting[fe])))
        dummies = [c for c in cols if c.startswith(fe + "_")]
        k = len(dummies)
        if lv_fit and k != len(lv_fit) - 1:
            return {"clause": "exactly one observed level per fixed effect is absorbed by the intercept", "fe": fe, "observed_levels": lv_fit, "dummies": dummies}
        for c in dummies:
            lvl = c[len(fe) + 1 :]
            if lvl not in lv_fit:
                return {"clause": "fitted dummies are levels observed on the fitting rows", "column": c, "observed": lv_fit}
            col = fit.loc[fitting.index, c] if len(fitting) else fit[c]
            if col.nunique() < 2 and len(fitting) > 1 and len(lv_fit) > 1:
                return {"clause": "every fitted dummy is non-constant on the fitting rows", "column": c}
            if sel is not None and lvl not in sel and lvl != "other":
                return {"clause": "unselected levels are pooled into 'other'", "column": c}
        absorbed = [l for l in lv_fit if f"{fe}_{l}" not in dummies]
        rest = df.iloc[n_train:]
        for i, (_, row) in enumerate(rest.iterrows()):
            lvl = row[fe] if sel is None or row[fe] in sel else "other"
            got = [float(hold.iloc[i][c]) for c in dummies]
            if lvl in lv_fit:
                exp = [1.0 if c == f"{fe}_{lvl}" else 0.0 for c in dummies]
            else:
                exp = [1.0 / (k + 1)] * k
            if not np.allclose(got, exp):
                return {"clause": "seen level -> its indicator; unseen level -> equal share 1/(k+1) on the k fitted levels", "fe": fe, "unit_level": lvl, "seen_in_fitting": lvl in lv_fit, "observed": got, "expected": exp, "absorbed": absorbed}
    for f in features:
        if f in x_all.columns and not states_sep:
            if not np.allclose(x_all[f].values, (df[f] - df[f].mean()).values):
                return {"clause": "continuous features are centred over all units", "feature": f}
    for st in states_sep:
        has_rep = ((df.reporting == 1) & (df.postal_code == st)).any()
        made = any(c.endswith("_" + st) for c in x_all.columns if c not in df.columns)
        if made and not has_rep:
            return {"clause": "per-state feature copies only for states that have reporting units", "state": st}
        for f in features:
            name = f"{f}_{st}"
            if name in x_all.columns:
                exp = np.where(df.postal_code == st, df[f], 0.0)
                if not np.allclose(x_all[name].values, exp):
                    return {"clause": "a per-state copy holds the feature inside the state and zero outside", "column": name, "observed": [float(v) for v in x_all[name].values], "expected": [float(v) for v in exp]}
    if states_sep:
        for f in features:
            # (with separate states the column that is centred is the feature with the separate states' rows set to 0)
            if f in x_all.columns and abs(float(x_all[f].mean())) > 1e-9:
                return {"clause": "continuous features are centred over all units", "feature": f, "mean_over_all_units": float(x_all[f].mean())}
    return None


def featurizer_battery_replay(fes, params, features, states=()):
    """REAL Featurizer on every assignment of 3 level names to 4 units (1..3 fitting rows, optionally one reporting
    but unexpected unit) for the given configuration of fixed effects / selected levels / features"""
    import itertools

    import numpy as np
    import pandas as pd

    LV = {"fe1": ["a", "b", "c"], "fe2": ["x", "y"]}
    rng = np.random.default_rng(3)
    out = {"exc": None, "ok": True, "failures": [], "evaluated": 0}
    n = 5  # (5 units: with 2 fitting rows the 3 outstanding rows can repeat an index label among themselves)
    fixed = {fe: (params[fe] if params else "all") for fe in fes} if params else list(fes)
    for n_fit in range(1, n):
        for lv1 in itertools.product(LV[fes[0]] if fes else ["-"], repeat=n):
            for unexpected_in_fit in ((False, True) if n_fit >= 2 else (False,)):
                df = pd.DataFrame({"postal_code": ["AA" if i % 2 == 0 else "BB" for i in range(n)], "reporting": [1] * n_fit + [0] * (n - n_fit), "unit_category": ["expected"] * n})
                if fes:
                    df[fes[0]] = list(lv1)
                for fe in fes[1:]:
                    df[fe] = [LV[fe][(i * 2 + 1) % len(LV[fe])] for i in range(n)]
                if unexpected_in_fit:
                    df.loc[n_fit - 1, "unit_category"] = "unexpected"
                for f in features:
                    df[f] = rng.normal(size=n)
                # twice: with a fresh RangeIndex, and with the index labels the models produce -- pd.concat of the
                # reporting and the outstanding frame, each numbered from 0, so labels REPEAT across the two parts
                # (and, as when unexpected units are appended as a third part, labels repeat WITHIN the outstanding rows)
                for labels in (None, list(range(n_fit)) + list(range(n - n_fit)), list(range(n_fit)) + [i % 2 for i in range(n - n_fit)]):
                    dfl = df.copy()
                    if labels is not None:
                        dfl.index = labels
                    out["evaluated"] += 1
                    try:
                        bad = featurizer_clauses(dfl, n_fit, list(features), fixed, states_sep=states)
                    except Exception as e:  # noqa
                        bad = {"clause": "no failure", "exc": f"{type(e).__name__}: {e}"}
                    if bad:
                        out["ok"] = False
                        if len(out["failures"]) < 3:
                            out["failures"].append({"levels": list(lv1), "n_fit": n_fit, "unexpected_in_fit": unexpected_in_fit, "repeated_index_labels": labels is not None, **{k: (v if isinstance(v, (str, int, float, list, bool)) else str(v)) for k, v in bad.items()}})
    return out


def unexpected_id_replay(parts, district):
    """REAL CombinedDataHandler._get_unexpected_units: a feed unit outside the baseline whose id has the given components
    (joined by '_'); its county / district columns must be the components the statement names"""
    import re

    from elexmodel.handlers.data.CombinedData import CombinedDataHandler

    clean = []
    for i, p in enumerate(parts):
        p = re.sub(r"[^A-Za-z0-9]", "", str(p or ""))
        clean.append(p if p else f"p{i}")
    # distinct components make a wrong split visible
    clean = [c if clean.count(c) == 1 else f"{c}{i}" for i, c in enumerate(clean)]
    uid = "_".join(clean)
    cols = ["postal_code", "geographic_unit_fips", "percent_expected_vote", "baseline_weights", "turnout_factor", "results_weights", "results_turnout", "last_election_results_turnout"]
    rows = [{"postal_code": "ZZ", "geographic_unit_fips": f"F_{i}", "percent_expected_vote": 100.0, "baseline_weights": 100.0, "turnout_factor": 1.0, "results_weights": 100.0, "results_turnout": 100.0, "last_election_results_turnout": 101.0} for i in range(2)]
    feed_rows = [{"postal_code": "ZZ", "geographic_unit_fips": f"F_{i}", "percent_expected_vote": 100.0, "results_turnout": 100.0} for i in range(2)]
    feed_rows.append({"postal_code": "ZZ", "geographic_unit_fips": uid, "percent_expected_vote": 50.0, "results_turnout": 7.0})
    # a second unit outside the baseline whose feed row says 0 percent expected vote although votes are already counted
    uid0 = "_".join(c + "z" for c in clean)
    feed_rows.append({"postal_code": "ZZ", "geographic_unit_fips": uid0, "percent_expected_vote": 0.0, "results_turnout": 11.0})
    # two requested estimands; a third unit outside the baseline has delivered one of the two counts only (the other is
    # missing): it is an unexpected unit like any other
    uid1 = "_".join(c + "y" for c in clean)
    for r_ in rows + feed_rows:
        r_["results_dem"] = 40.0
    for r_ in rows:
        r_["last_election_results_dem"] = 41.0
    feed_rows.append({"postal_code": "ZZ", "geographic_unit_fips": uid1, "percent_expected_vote": 80.0, "results_turnout": 40.0, "results_dem": float("nan")})
    cols = cols + ["results_dem", "last_election_results_dem"]
    h = CombinedDataHandler.__new__(CombinedDataHandler)
    h.estimands = ["turnout", "dem"]
    h.data = pd.DataFrame(rows, columns=cols)
    h.current_data = pd.DataFrame(feed_rows, columns=["postal_code", "geographic_unit_fips", "percent_expected_vote", "results_turnout", "results_dem"])
    h.preprocessed_data = h.data
    h.geographic_unit_type = "precinct-district" if district else "precinct"
    aggs = ["postal_code", "county_fips", "district", "unit"] if district else ["postal_code", "county_fips", "unit"]
    out = {"exc": None, "id": uid}
    try:
        un = h._get_unexpected_units(aggs)
        row = un[un.geographic_unit_fips == uid]
        out["county_fips"] = [str(x) for x in row.county_fips] if "county_fips" in row else None
        out["district"] = [str(x) for x in row.district] if "district" in row else None
        want_county = clean[1] if district else clean[0]
        ok = out["county_fips"] == [want_county]
        if district:
            ok = ok and out["district"] == [clean[0]]
        out["rows"] = sorted(str(x) for x in un.geographic_unit_fips)
        ok = ok and out["rows"] == sorted([uid, uid0, uid1])  # EVERY feed unit outside the baseline, whatever its percentage / missing counts
        out["ok"] = bool(ok)
        out["want_county"] = want_county
    except Exception as e:  # noqa
        out["exc"] = f"{type(e).__name__}: {e}"
        out["ok"] = False
    return out


def two_estimands_replay(alpha=0.9):
    """REAL NonparametricElectionModel: unit intervals of a second estimand computed on the SAME model object right after
    a first estimand must equal the intervals a fresh model object computes for it (no state carried over)"""
    from elexmodel.models.NonparametricElectionModel import NonparametricElectionModel

    rng = np.random.default_rng(7)
    n_rep, n_non = 60, 12

    def frame(n, rep):
        last_t = rng.integers(500, 5000, n).astype(float)
        last_d = np.round(last_t * rng.uniform(0.3, 0.7, n))
        df = pd.DataFrame({"postal_code": "AA", "geographic_unit_fips": [f"{'r' if rep else 'n'}{i}" for i in range(n)], "reporting": int(rep), "unit_category": "expected"})
        df["last_election_results_turnout"], df["last_election_results_dem"] = last_t + 1, last_d + 1
        # very different residual scales for the two estimands, so that a carried-over correction is visible
        df["results_turnout"] = np.round(last_t * (1 + rng.normal(0, 0.02, n))) if rep else np.round(last_t * 0.1)
        df["results_dem"] = np.round(last_d * (1 + rng.normal(0.1, 0.4, n)).clip(0.05)) if rep else np.round(last_d * 0.1)
        for e in ("turnout", "dem"):
            df[f"residuals_{e}"] = (df[f"results_{e}"] - df[f"last_election_results_{e}"]) / df[f"last_election_results_{e}"]
        return df

    rep, non = frame(n_rep, True), frame(n_non, False)
    out = {"exc": None}
    try:
        # the client's sequence per estimand: unit predictions, then unit intervals
        shared = NonparametricElectionModel({})
        shared.get_unit_predictions(rep, non, "turnout")
        shared.get_unit_prediction_intervals(rep, non, alpha, "turnout")
        shared.get_unit_predictions(rep, non, "dem")
        second = shared.get_unit_prediction_intervals(rep, non, alpha, "dem")
        fm = NonparametricElectionModel({})
        fm.get_unit_predictions(rep, non, "dem")
        fresh = fm.get_unit_prediction_intervals(rep, non, alpha, "dem")
        out["same_lower"] = bool(np.array_equal(np.asarray(second.lower), np.asarray(fresh.lower)))
        out["same_upper"] = bool(np.array_equal(np.asarray(second.upper), np.asarray(fresh.upper)))
        out["ok"] = out["same_lower"] and out["same_upper"]
        if not out["ok"]:
            out["first_difference"] = [float(np.asarray(second.upper)[0]), float(np.asarray(fresh.upper)[0])]
    except Exception as e:  # noqa
        out["exc"] = f"{type(e).__name__}: {e}"
        out["ok"] = False
    return out


def uniform_swing_request_replay(lambda_=3.0):
    """REAL ConformalElectionModel.get_unit_predictions without covariates, the solver replaced by a recording double
    with the INSTALLED signature: the request must be the unregularised weighted-median problem (intercept fitted and
    not regularised) whatever lambda_ is, and the predictions must be one common factor"""
    import inspect

    from elexsolver.QuantileRegressionSolver import QuantileRegressionSolver

    from elexmodel.models.NonparametricElectionModel import NonparametricElectionModel

    sig = inspect.signature(QuantileRegressionSolver.fit)
    log = []
    real_fit = QuantileRegressionSolver.fit

    def fit(self, *a, **k):
        b = sig.bind(self, *a, **k)
        b.apply_defaults()
        log.append({n: (v if isinstance(v, (bool, int, float)) else type(v).__name__) for n, v in b.arguments.items() if n != "self"})
        log[-1]["_arrays"] = {n: np.asarray(b.arguments[n], dtype=float).ravel() for n in ("y", "weights") if b.arguments.get(n) is not None}
        log[-1]["_rows"] = int(np.asarray(b.arguments["x"]).shape[0])
        return real_fit(self, *a, **k)

    rng = np.random.default_rng(2)
    n_rep, n_non = 30, 6

    def frame(n, rep):
        last = rng.integers(500, 5000, n).astype(float)
        df = pd.DataFrame({"postal_code": "AA", "geographic_unit_fips": [f"{'r' if rep else 'n'}{i}" for i in range(n)], "reporting": int(rep), "unit_category": "expected"})
        if rep:
            # baselines five orders of magnitude apart (one-vote precincts next to a large county): the weights of the request
            # are the baselines themselves, however small
            last[-3:] = 1.0
            last[10] = 450000.0
        df["last_election_results_turnout"] = last + 1
        df["results_turnout"] = np.round(last * (1 + rng.normal(0.05, 0.1, n))) if rep else np.round(last * 0.1)
        if rep:
            # some reporting units have counted NO vote at all (relative change -1): they are modelled units like any other
            df.loc[df.index[:9], "results_turnout"] = 0.0
        df["residuals_turnout"] = (df["results_turnout"] - df["last_election_results_turnout"]) / df["last_election_results_turnout"]
        return df

    rep, non = frame(n_rep, True), frame(n_non, False)
    out = {"exc": None}
    QuantileRegressionSolver.fit = fit
    try:
        m = NonparametricElectionModel({"lambda_": lambda_})
        preds, _ = m.get_unit_predictions(rep, non, "turnout")
        req = log[0]
        out["request"] = {k: req[k] for k in ("taus", "lambda_", "fit_intercept", "regularize_intercept", "n_feat_ignore_reg") if k in req}
        ok_req = req.get("regularize_intercept") is False and req.get("fit_intercept") is True and req.get("n_feat_ignore_reg", 0) == 0
        # uniform swing: (pred - last) / last is the same number for every outstanding unit (before the floor / rounding)
        from elexmodel.utils.math_utils import weighted_median

        w = (rep.last_election_results_turnout / rep.last_election_results_turnout.sum()).to_numpy()
        med = weighted_median(rep.residuals_turnout.to_numpy(), w)
        want = np.maximum(np.round(non.last_election_results_turnout * (1 + med)), non.results_turnout)
        close = bool(np.all(np.abs(np.asarray(preds) - np.asarray(want)) <= np.maximum(2.0, 0.01 * np.asarray(want))))
        out["predictions_are_the_weighted_median_swing"] = close
        # rows, weights and response of the request: every reporting unit, weighted by its baseline (previous result + 1),
        # response = relative change
        arrs = req["_arrays"]
        ok_rows = req["_rows"] == n_rep and np.array_equal(arrs.get("weights"), rep.last_election_results_turnout.to_numpy(dtype=float)) and np.allclose(arrs.get("y"), rep.residuals_turnout.to_numpy(dtype=float), rtol=0, atol=0)
        out["request_rows_weights_response_are_the_reporting_units_baselines_and_relative_changes"] = bool(ok_rows)
        if not ok_rows:
            out["weights_passed"], out["baselines"] = [float(v) for v in arrs.get("weights")[:4]], [float(v) for v in rep.last_election_results_turnout[:4]]
        out["ok"] = bool(ok_req and close and ok_rows)
        # second election: a large swing (about +58%) and outstanding units whose baseline is the bare smoothing constant 1
        # (previous result 0): they, too, are scaled by the one common factor
        swing = np.array([0.40, 0.45, 0.50, 0.55, 0.58, 0.58, 0.60, 0.62, 0.65, 0.70, 0.75, 0.80])
        last_r = np.array([800.0, 900, 1000, 1100, 1200, 1300, 1250, 1150, 1050, 950, 850, 750]) + 1
        rep2 = pd.DataFrame({"postal_code": "AA", "geographic_unit_fips": [f"r{i}" for i in range(12)], "reporting": 1, "unit_category": "expected", "last_election_results_turnout": last_r, "results_turnout": np.round(last_r * (1 + swing))})
        rep2["residuals_turnout"] = (rep2.results_turnout - rep2.last_election_results_turnout) / rep2.last_election_results_turnout
        non2 = pd.DataFrame({"postal_code": "AA", "geographic_unit_fips": [f"n{i}" for i in range(5)], "reporting": 0, "unit_category": "expected", "last_election_results_turnout": [501.0, 1.0, 78.0, 1.0, 2001.0], "results_turnout": [10.0, 0.0, 200.0, 7.0, 0.0]})
        non2["residuals_turnout"] = (non2.results_turnout - non2.last_election_results_turnout) / non2.last_election_results_turnout
        m2 = NonparametricElectionModel({})
        preds2, _ = m2.get_unit_predictions(rep2, non2, "turnout")
        w2 = (rep2.last_election_results_turnout / rep2.last_election_results_turnout.sum()).to_numpy()
        med2 = weighted_median(rep2.residuals_turnout.to_numpy(), w2)
        want2 = np.maximum(np.round(non2.last_election_results_turnout * (1 + med2)), non2.results_turnout)
        ok2 = bool(np.all(np.abs(np.asarray(preds2, dtype=float) - np.asarray(want2)) <= np.maximum(1.0, 0.01 * np.asarray(want2))) and float(np.asarray(preds2, dtype=float)[1]) == float(np.asarray(want2)[1]))
        out["unit_with_the_smallest_baseline_is_scaled_by_the_common_factor_too"] = ok2
        if not ok2:
            out["predictions_second_election"], out["expected_second_election"] = [float(x) for x in np.asarray(preds2, dtype=float)], [float(x) for x in np.asarray(want2)]
        out["ok"] = bool(out["ok"] and ok2)
    except Exception as e:  # noqa
        out["exc"] = f"{type(e).__name__}: {e}"
        out["ok"] = False
    finally:
        QuantileRegressionSolver.fit = real_fit
    return out


def stopped_thin_race_replay(side="left"):
    """REAL BootstrapElectionModel.get_aggregate_prediction_intervals (state level) on a model object whose bootstrap state
    is set by hand: contest AA is razor-thin (its whole interval lies strictly between 0 and the call threshold 0.005,
    on the given side), it is NOT called, and it is on the stop list -> the reported interval must contain zero"""
    from elexmodel.models.BootstrapElectionModel import BootstrapElectionModel

    B = 21
    sgn = 1.0 if side == "left" else -1.0
    m = BootstrapElectionModel({"features": ["baseline_normalized_margin"], "B": B})
    rep = pd.DataFrame({"postal_code": ["AA", "BB"], "geographic_unit_fips": ["a1", "b1"], "baseline_weights": [1000.0, 1000.0], "results_normalized_margin": [0.002 * sgn, 0.2], "turnout_factor": [1.0, 1.0], "reporting": 1})
    non = pd.DataFrame({"postal_code": ["AA", "BB"], "geographic_unit_fips": ["a2", "b2"], "baseline_weights": [100.0, 100.0], "reporting": 0})
    unx = pd.DataFrame({"postal_code": pd.Series([], dtype=str), "geographic_unit_fips": pd.Series([], dtype=str), "results_margin": pd.Series([], dtype=float), "results_weights": pd.Series([], dtype=float), "reporting": pd.Series([], dtype=int)})
    delta = np.linspace(-0.05, 0.05, B)
    m.errors_B_2 = np.tile(np.array([[0.25 * sgn], [20.0]]), (1, B))
    m.errors_B_1 = m.errors_B_2 + np.vstack([delta, delta])
    m.errors_B_3 = np.full((2, B), 100.0)
    m.errors_B_4 = np.full((2, B), 100.0)
    m.weighted_z_test_pred = np.array([[100.0], [100.0]])
    m.weighted_yz_test_pred = np.array([[0.25 * sgn], [20.0]])
    m.aggregate_pred_margin = np.array([[0.0025 * sgn], [0.2]])
    m.ran_bootstrap = True
    out = {"exc": None}
    try:
        pi = m.get_aggregate_prediction_intervals(rep, non, unx, ["postal_code"], 0.9, None, "margin", lhs_called_contests=[], rhs_called_contests=[], stop_model_call=["AA"])
        lo, up = float(np.asarray(pi.lower).ravel()[0]), float(np.asarray(pi.upper).ravel()[0])
        out.update(lower=lo, upper=up, other=[float(np.asarray(pi.lower).ravel()[1]), float(np.asarray(pi.upper).ravel()[1])])
        out["ok"] = bool(lo <= 0 <= up)
    except Exception as e:  # noqa
        out["exc"] = f"{type(e).__name__}: {e}"
        out["ok"] = False
    return out


def called_contests_no_uncertainty_replay(correlated, hard):
    """REAL get_national_summary_estimates on a hand-set model: every contest is CALLED (none stop-listed) while the
    bootstrap draws are wide -> there is no uncertainty left: lower == prediction == upper"""
    from elexmodel.models.BootstrapElectionModel import BootstrapElectionModel

    B = 40
    m = BootstrapElectionModel({"features": ["baseline_normalized_margin"], "B": B, "agg_model_hard_threshold": hard, "national_summary_correlation": correlated})
    rng = np.random.default_rng(1)
    m.aggregate_pred_margin = np.array([[0.01], [-0.02], [0.03]])
    m.divided_error_B_1 = rng.normal(0, 0.2, size=(3, B))
    m.divided_error_B_2 = rng.normal(0, 0.2, size=(3, B))
    m.called_contests = np.array([[1], [0], [1]])
    m.stop_model_call = np.array([[False], [False], [False]])
    out = {"exc": None}
    try:
        r = m.get_national_summary_estimates({"A": 3, "B": 5, "C": 4}, 0, 0.9)["margin"]
        out.update(pred=float(r[0]), lower=float(r[1]), upper=float(r[2]))
        out["ok"] = bool(abs(r[1] - r[0]) < 1e-9 and abs(r[2] - r[0]) < 1e-9)
    except Exception as e:  # noqa
        out["exc"] = f"{type(e).__name__}: {e}"
        out["ok"] = False
    return out


def version_history_replay(dem, gop, last_pev=100.0, turnout=None, weights=None, pev=None, margin=None):
    """REAL VersionedDataHandler.compute_versioned_margin_estimate on ONE unit's history (lists of dem / gop counts per
    version, turnout = dem + gop): an irregular history (decreasing turnout, or a batch whose margin change exceeds its
    size -- including a vote swap with unchanged total) must be discarded (only missing values, 101 rows); a regular one
    must be accepted with finite margins within [-1, 1]"""
    from elexmodel.handlers.data.VersionedData import VersionedDataHandler

    dem = np.array([float(x or 0) for x in dem])
    gop = np.array([float(x or 0) for x in gop])
    nv = len(dem)
    w = np.array([float(x or 0) for x in weights]) if weights is not None else dem + gop
    tt = np.array([float(x or 0) for x in turnout]) if turnout is not None else w
    pv = np.array([float(x or 0) for x in pev]) if pev is not None else (np.linspace(10, last_pev, nv) if nv > 1 else np.array([float(last_pev)]))
    mg = np.array([float(x or 0) for x in margin]) if margin is not None else np.where(w > 0, (dem - gop) / np.maximum(w, 1), 0.0)
    out = {"exc": None, "dem": dem.tolist(), "gop": gop.tolist(), "weights": w.tolist(), "turnout": tt.tolist()}
    if nv == 0 or tt[-1] <= 0 or (dem < 0).any() or (gop < 0).any() or (tt < 0).any() or (pv < 0).any() or (np.abs(mg) > 1).any() or pv[-1] > 150:
        # the solver's history is outside the input validity predicate at a version the proof did not instantiate:
        # fall back to a battery of small valid histories (repeated versions, vote swaps with unchanged total,
        # downward revisions, impossible batches)
        import itertools

        grid = [(30, 10), (35, 5), (40, 40), (60, 20), (20, 60)]
        r0 = version_history_replay([150, 210, 610], [50, 290, 390], pev=[20.0, 50.0, 100.0])
        if not r0["ok"]:
            r0["note"] = "battery history (first version at 20 percent)"
            return r0
        for nv2 in (2, 3):
            for hist in itertools.product(grid, repeat=nv2):
                r = version_history_replay([x[0] for x in hist], [x[1] for x in hist])
                if not r["ok"]:
                    r["note"] = "battery history (the solver's own history was not a valid input)"
                    return r
        out["ok"] = True
        out["note"] = "battery of valid histories: all clauses hold"
        return out
    df = pd.DataFrame({"geographic_unit_fips": "u", "results_dem": dem, "results_gop": gop, "results_weights": w, "results_turnout": tt, "percent_expected_vote": pv, "results_normalized_margin": mg})
    h = VersionedDataHandler.__new__(VersionedDataHandler)
    try:
        res = h.compute_versioned_margin_estimate(df.copy())
    except Exception as e:  # noqa
        out["exc"] = f"{type(e).__name__}: {e}"
        out["ok"] = False
        return out
    monotone = all(tt[i] <= tt[i + 1] for i in range(nv - 1))
    dw, dn = np.diff(w), np.diff(dem) - np.diff(gop)
    impossible = any((dw[i] != 0 and abs(dn[i]) > abs(dw[i])) or (dw[i] == 0 and dn[i] != 0) for i in range(nv - 1))
    et = set(map(str, res["error_type"]))
    out["error_type"] = sorted(et)
    out["irregular"] = bool(not monotone or impossible)
    if out["irregular"]:
        out["ok"] = bool(res["est_correction"].isna().all() and et <= {"non-monotone percent expected vote", "batch_margin"} and len(res) == 101)
    else:
        est = res["est_margin"].to_numpy(dtype=float)
        pcs = res["percent_expected_vote"].to_numpy(dtype=float)
        first_pct = float(pv[0]) * 100.0 / float(pv[-1]) if pv[-1] > 0 else 0.0  # the history is re-scaled to end at 100
        before = (pcs > 0) & (pcs < min(first_pct, float(pv[0])) - 1e-9)
        out["before_first_observation_ok"] = bool(np.allclose(est[before], mg[0], atol=1e-9)) if before.any() else True
        out["ok"] = bool(et == {"none"} and np.isfinite(est).all() and (np.abs(est) <= 1 + 1e-12).all() and out["before_first_observation_ok"])
    return out


def mutable_defaults_replay():
    """REAL ModelClient.get_estimates called twice WITHOUT the optional container arguments (so the shared default
    objects are used): the default objects of every function of the client module must be unchanged afterwards, and
    the second run must return what the first returned"""
    import copy
    import inspect

    import elexmodel.client as cl

    def defaults():
        out = {}
        for cname, c in inspect.getmembers(cl, inspect.isclass):
            if c.__module__ != cl.__name__:
                continue
            for fname, f in inspect.getmembers(c, inspect.isfunction):
                for p in inspect.signature(f).parameters.values():
                    if isinstance(p.default, (dict, list, set)):
                        out[f"{cname}.{fname}({p.name})"] = p.default
        return out

    before = {k: copy.deepcopy(v) for k, v in defaults().items()}
    base = synthetic(40, seed=1)
    cur = feed(base, [100] * 30 + [30] * 10)
    out = {"exc": None}
    try:
        res = []
        for _ in range(2):
            c = cl.ModelClient()
            with warnings.catch_warnings():
                warnings.simplefilter("ignore")
                r = c.get_estimates(cur.copy(), "2024-11-05_USA_G", "S", ["turnout"], [0.9], 100, "county", raw_config=config("2024-11-05_USA_G", "S", sorted(set(base.postal_code)), "county"), preprocessed_data=base.copy(), pi_method="nonparametric", aggregates=["postal_code", "unit"])
            res.append(r)
        after = defaults()
        changed = {k: repr(after[k])[:120] for k in before if after[k] != before[k]}
        out["changed_defaults"] = changed
        out["same_results"] = all(res[0][k].equals(res[1][k]) for k in res[0])
        out["ok"] = bool(not changed and out["same_results"])
    except Exception as e:  # noqa
        out["exc"] = f"{type(e).__name__}: {e}"
        out["ok"] = False
    return out


def results_saved_before_gate_replay():
    """REAL ModelClient.get_estimates in a non-local environment (module constant patched) with save_output=['results'],
    S3 writes recorded by a fake put, and TOO FEW reporting units: the dedicated error must be raised AND the live
    results must already have been written (results first, the gate afterwards)"""
    import elexmodel.client as cl
    import elexmodel.handlers.data.CombinedData as cd
    from elexmodel.handlers import s3

    puts = []
    saved = (cl.APP_ENV, s3.S3Util.put, s3.S3Util.__init__)

    def fake_init(self, bucket_name, client=None):
        self.bucket_name = bucket_name

    def fake_put(self, filename, data, **kwargs):
        puts.append(filename)

    out = {"exc": None}
    try:
        cl.APP_ENV = "prod"
        s3.S3Util.__init__ = fake_init
        s3.S3Util.put = fake_put
        base = synthetic(12, seed=3, states=("AA",))
        ok = True
        for n_reporting in (3, 0, -1):  # too few reporting units, none at all (start of the night), and NO ROW yet in the feed
            del puts[:]
            cur = feed(base, [100] * max(n_reporting, 0) + [0] * (12 - max(n_reporting, 0)))
            if n_reporting < 0:
                cur = cur.iloc[:0]
            raised = False
            try:
                run_client(cur, base, prediction_intervals=(0.9,), pi_method="nonparametric", save_output=["results"])
            except cl.ModelNotEnoughSubunitsException:
                raised = True
            out[f"reporting_{n_reporting}"] = {"raised_dedicated": raised, "puts": puts[:4]}
            ok = ok and raised and any("/results/" in p for p in puts)
        out["raised_dedicated"] = True
        out["results_written"] = ok
        out["ok"] = bool(ok)
    except Exception as e:  # noqa
        out["exc"] = f"{type(e).__name__}: {e}"
        out["ok"] = False
    finally:
        cl.APP_ENV, s3.S3Util.put, s3.S3Util.__init__ = saved
    return out


def get_downloads_replay(n=5, sample=2):
    """REAL S3VersionUtil.get against a scripted listing service and transfer manager: 5 versions, every sample-th is
    requested once with its own VersionId, every subset of failing downloads that leaves a success is skipped without
    aborting, every surviving row carries ITS OWN version's modification time in the configured timezone"""
    import itertools
    from datetime import datetime, timedelta, timezone

    from dateutil import tz

    from elexmodel.handlers.s3 import S3VersionUtil

    class Future:
        def __init__(self, fail):
            self.fail = fail

        def result(self):
            if self.fail:
                raise RuntimeError("download failed")

    class Manager:
        def __init__(self, fail_ids):
            self.fail_ids, self.requested = fail_ids, []

        def download(self, bucket, key, fileobj, extra_args=None, subscribers=None):
            vid = (extra_args or {}).get("VersionId")
            self.requested.append(vid)
            # byte-identical bodies for the versions that share an entity tag (an unchanged file uploaded again)
            i = int(vid[1:])
            body = f"b{i % 2}" if i < 4 else f"b{i}"
            fileobj.write(f"geographic_unit_fips,dem,gop,total\n{body},1,2,3\n".encode())
            return Future(vid in self.fail_ids)

    T0 = datetime(2024, 11, 5, 20, 0, tzinfo=timezone.utc)
    times = [T0 - timedelta(minutes=10 * i) for i in range(n)]
    chosen = list(range(n))[::sample]
    out = {"exc": None, "ok": True, "failures": []}
    for k in range(0, len(chosen)):
        for fs in itertools.combinations(chosen, k):
            u = S3VersionUtil.__new__(S3VersionUtil)
            u.bucket_name, u.start_date, u.end_date, u.tz = "b", None, None, "America/New_York"
            u.s3_client = _FakeVersionClient(times, [2])
            u.manager = Manager({f"v{i}" for i in fs})
            try:
                df = u.get("p", sample=sample)
            except Exception as e:  # noqa
                out["ok"] = False
                out["failures"].append({"failing": list(fs), "exc": f"{type(e).__name__}: {e}"})
                continue
            good = [i for i in chosen if i not in fs]
            body_of = lambda i: f"b{i % 2}" if i < 4 else f"b{i}"  # noqa: E731
            ok = u.manager.requested == [f"v{i}" for i in chosen] and df is not None and list(df["geographic_unit_fips"]) == [body_of(i) for i in good]
            if ok:
                for i, ts in zip(good, df["last_modified"]):
                    ok = ok and ts == pd.to_datetime(times[i]).astimezone(tz=tz.gettz("America/New_York"))
            if not ok:
                out["ok"] = False
                out["failures"].append({"failing": list(fs), "requested": u.manager.requested, "rows": None if df is None else list(df["geographic_unit_fips"]), "stamps": None if df is None else [str(x) for x in df["last_modified"]]})
    out["failures"] = out["failures"][:3]
    return out


def bootstrap_aggregate_identity_replay():
    """REAL BootstrapElectionModel.get_aggregate_predictions on a model whose unit-level predictions are set by hand (one
    outstanding unit has already counted MORE two-party votes than its predicted turnout): the predicted turnout of every
    state must be the sum of its units' (counted or predicted) turnout, and the predicted margin the sum of unit margins
    over that turnout"""
    from elexmodel.models.BootstrapElectionModel import BootstrapElectionModel

    m = BootstrapElectionModel({"features": ["baseline_normalized_margin"], "B": 10})
    rep = pd.DataFrame({"postal_code": ["AA", "BB"], "geographic_unit_fips": ["a1", "b1"], "baseline_weights": [1000.0, 800.0], "results_normalized_margin": [0.1, -0.2], "turnout_factor": [1.1, 0.9], "results_margin": [110.0, -144.0], "pred_margin": [110.0, -144.0], "reporting": 1})
    # a2: predicted turnout 300 although 540 two-party votes are already counted there
    non = pd.DataFrame({"postal_code": ["AA", "BB"], "geographic_unit_fips": ["a2", "b2"], "baseline_weights": [400.0, 500.0], "results_weights": [540.0, 50.0], "results_margin": [40.0, 5.0], "pred_margin": [30.0, -60.0], "reporting": 0})
    unx = pd.DataFrame({"postal_code": ["AA"], "geographic_unit_fips": ["x1"], "results_weights": [70.0], "results_margin": [10.0], "pred_margin": [10.0], "reporting": [0]})
    for f in (rep, non, unx):
        for c in ("baseline_dem", "baseline_gop", "baseline_turnout"):
            f[c] = 1.0
    m.weighted_z_test_pred = np.array([[300.0], [450.0]])
    m.weighted_yz_test_pred = np.array([[30.0], [-60.0]])
    m.ran_bootstrap = True
    out = {"exc": None}
    try:
        est = m.get_aggregate_predictions(rep, non, unx, ["postal_code"], "margin", lhs_called_contests=[], rhs_called_contests=[]).set_index("postal_code")
        want_turnout = {"AA": 1000.0 * 1.1 + 300.0 + 70.0, "BB": 800.0 * 0.9 + 450.0}
        want_margin = {"AA": (110.0 + 30.0 + 10.0) / want_turnout["AA"], "BB": (-144.0 - 60.0) / want_turnout["BB"]}
        out["pred_turnout"] = {k: float(est.loc[k, "pred_turnout"]) for k in want_turnout}
        out["pred_margin"] = {k: float(est.loc[k, "pred_margin"]) for k in want_turnout}
        out["want_turnout"], out["want_margin"] = want_turnout, want_margin
        out["ok"] = all(abs(out["pred_turnout"][k] - want_turnout[k]) < 1e-6 and abs(out["pred_margin"][k] - want_margin[k]) < 1e-9 for k in want_turnout)
    except Exception as e:  # noqa
        out["exc"] = f"{type(e).__name__}: {e}"
        out["ok"] = False
    return out


def level_independence_replay(pi_method="gaussian"):
    """REAL client: the intervals reported for level 0.7 must be the same whether 0.7 is requested alone or together with
    0.9 (in either order), at every aggregate"""
    base = synthetic(90, seed=4)
    cur = feed(base, [100] * 55 + [30] * 35)
    out = {"exc": None, "differences": []}
    try:
        runs = {}
        for name, levels in (("alone", (0.7,)), ("with_0.9_after", (0.7, 0.9)), ("with_0.9_before", (0.9, 0.7))):
            c, r = run_client(cur, base, estimands=("turnout",), pi_method=pi_method, prediction_intervals=levels, aggregates=("postal_code", "county_classification", "unit"))
            runs[name] = r
        for name in ("with_0.9_after", "with_0.9_before"):
            for tab in runs["alone"]:
                a, b = runs["alone"][tab], runs[name][tab]
                for col in ("lower_0.7_turnout", "upper_0.7_turnout", "pred_turnout"):
                    if col in a and not np.array_equal(np.asarray(a[col]), np.asarray(b[col])):
                        out["differences"].append({"request": name, "table": tab, "column": col, "alone": float(np.asarray(a[col])[0]), "together": float(np.asarray(b[col])[0])})
        out["differences"] = out["differences"][:4]
        out["ok"] = not out["differences"]
    except Exception as e:  # noqa
        out["exc"] = f"{type(e).__name__}: {e}"
        out["ok"] = False
    return out


def national_summary_weights_replay(correlated=False):
    """REAL get_national_summary_estimates (threshold mode) with weights that are NOT increasing in contest-name order:
    the prediction must be base + the weights of exactly the contests whose predicted margin is positive"""
    from elexmodel.models.BootstrapElectionModel import BootstrapElectionModel

    B = 20
    m = BootstrapElectionModel({"features": ["baseline_normalized_margin"], "B": B, "agg_model_hard_threshold": True, "national_summary_correlation": correlated})
    rng = np.random.default_rng(0)
    # (g: a contest without any predicted turnout -- get_aggregate_predictions reports its margin as exactly 0, and so is
    # every bootstrap draw of it: it is NOT a contest with a positive margin)
    margins = {"a": -0.2, "b": 0.3, "c": 0.1, "d": 0.25, "e": -0.05, "f": 0.4, "g": 0.0}
    weights = {"a": 55, "b": 10, "c": 29, "d": 3, "e": 16, "f": 4, "g": 21}
    names = sorted(margins)
    m.aggregate_pred_margin = np.array([[margins[k]] for k in names])
    noise = rng.normal(0, 0.01, size=(len(names), B))
    noise[names.index("g"), :] = 0.0
    m.divided_error_B_1 = noise
    m.divided_error_B_2 = noise * 0.5
    m.called_contests = np.full((len(names), 1), -1)
    m.stop_model_call = np.full((len(names), 1), False)
    out = {"exc": None}
    try:
        base = 7.5
        # insertion order different from the name order on purpose
        r = m.get_national_summary_estimates({k: weights[k] for k in ("f", "a", "g", "d", "b", "e", "c")}, base, 0.9)["margin"]
        want = base + sum(weights[k] for k in names if margins[k] > 0)
        out.update(pred=float(r[0]), lower=float(r[1]), upper=float(r[2]), want=float(want))
        out["ok"] = bool(abs(r[0] - want) < 1e-9 and r[1] <= r[0] <= r[2] and base <= r[1] and r[2] <= base + sum(weights.values()))
        # every contest called (no uncertainty left) and a fractional base whose sum with the prediction has a 5 in the third
        # decimal: the three numbers are rounded the same way, so lower = prediction = upper
        m.called_contests = np.array([[1 if margins[k] > 0 else 0] for k in names])
        for fb in (0.145, 0.215, 0.675, 0.005):
            r2 = m.get_national_summary_estimates({k: weights[k] for k in names}, fb, 0.9)["margin"]
            if not (float(r2[1]) <= float(r2[0]) <= float(r2[2])):
                out["ok"] = False
                out["all_called"] = {"base": fb, "pred": float(r2[0]), "lower": float(r2[1]), "upper": float(r2[2])}
                break
    except Exception as e:  # noqa
        out["exc"] = f"{type(e).__name__}: {e}"
        out["ok"] = False
    return out


def unit_interval_floor_replay(pi_method="nonparametric", alpha=0.9):
    """REAL conformal estimator, unit level: outstanding units that have ALREADY counted more votes than the model's upper
    bound -- prediction, lower and upper bound must all be at least the counted votes (and whole numbers)"""
    from elexmodel.models.GaussianElectionModel import GaussianElectionModel
    from elexmodel.models.NonparametricElectionModel import NonparametricElectionModel

    rng = np.random.default_rng(11)
    n_rep, n_non = 60, 8

    def frame(n, rep):
        last = rng.integers(500, 5000, n).astype(float)
        df = pd.DataFrame({"postal_code": "AA", "geographic_unit_fips": [f"{'r' if rep else 'n'}{i}" for i in range(n)], "reporting": int(rep), "unit_category": "expected"})
        df["last_election_results_turnout"] = last + 1
        if rep:
            df["results_turnout"] = np.round(last * (1 + rng.normal(-0.3, 0.03, n)))  # the reporting units are DOWN 30%
        else:
            df["results_turnout"] = np.round(last * np.where(np.arange(n) % 2 == 0, 1.2, 0.1))  # half of them already above last time
        df["residuals_turnout"] = (df["results_turnout"] - df["last_election_results_turnout"]) / df["last_election_results_turnout"]
        return df

    rep, non = frame(n_rep, True), frame(n_non, False)
    out = {"exc": None}
    try:
        m = (NonparametricElectionModel if pi_method == "nonparametric" else GaussianElectionModel)({"save_conformalization": False} if pi_method == "gaussian" else {})
        preds, _ = m.get_unit_predictions(rep, non, "turnout")
        pi = m.get_unit_prediction_intervals(rep, non, alpha, "turnout")
        res = non.results_turnout.to_numpy()
        lo, up, pr = np.asarray(pi.lower, dtype=float), np.asarray(pi.upper, dtype=float), np.asarray(preds, dtype=float)
        bad = [i for i in range(n_non) if lo[i] < res[i] or up[i] < res[i] or pr[i] < res[i]]
        out["violations"] = [{"unit": int(i), "counted": float(res[i]), "pred": float(pr[i]), "lower": float(lo[i]), "upper": float(up[i])} for i in bad[:3]]
        out["whole"] = bool(np.all(lo == np.round(lo)) and np.all(up == np.round(up)))
        out["ok"] = bool(not bad and out["whole"])
    except Exception as e:  # noqa
        out["exc"] = f"{type(e).__name__}: {e}"
        out["ok"] = False
    return out


def zero_baseline_count_changes_other_units(pi_method="bootstrap"):
    """REAL client, margin estimand, both outlier models on: change the dem / gop counts of ONE reporting unit whose
    baseline is zero (excluded from modelling as 'non-modeled: zero baseline'); no other unit's category or prediction
    may change"""
    base = synthetic(60, seed=9, states=("AA",))
    z = base.geographic_unit_fips[5]
    base.loc[5, ["baseline_dem", "baseline_gop", "baseline_turnout"]] = 0
    base.loc[5, "baseline_normalized_margin"] = 0.0
    cur = feed(base, [100] * 45 + [30] * 15, seed=4)
    out = {"exc": None}
    try:
        tabs = []
        for dem, gop in ((10, 10), (4000, 10)):
            c = cur.copy()
            m = c.geographic_unit_fips == z
            c.loc[m, "results_dem"], c.loc[m, "results_gop"], c.loc[m, "results_turnout"] = dem, gop, dem + gop
            _, r = run_client(c, base, estimands=("margin",), pi_method=pi_method, prediction_intervals=(0.7,), features=("baseline_normalized_margin",), model_parameters={"fit_margin_outlier_model": True, "fit_turnout_outlier_model": True, "B": 20})
            tabs.append(r["unit_data"].set_index("geographic_unit_fips"))
        a, b = tabs
        others = [i for i in a.index if i != z]
        pcol = [c for c in a.columns if c.startswith("pred_")][0]
        out["category_of_the_unit"] = [str(a.loc[z, "unit_category"]), str(b.loc[z, "unit_category"])]
        out["changed_categories"] = [(i, str(a.loc[i, "unit_category"]), str(b.loc[i, "unit_category"])) for i in others if a.loc[i, "unit_category"] != b.loc[i, "unit_category"]][:3]
        out["changed_predictions"] = int((a.loc[others, pcol] != b.loc[others, pcol]).sum())
        out["ok"] = bool(not out["changed_categories"] and out["changed_predictions"] == 0)
    except Exception as e:  # noqa
        out["exc"] = f"{type(e).__name__}: {e}"
        out["ok"] = False
    return out


def run_seed_demo(seed_id):
    """run the scenario script an independent author wrote for a seeded change (/verif/seeded/<id>/demo.py: it builds one
    concrete election and checks the property's clauses directly from the statement) against the CURRENT tree; exit 0 =
    the clauses hold on that scenario"""
    import subprocess
    import sys

    here = os.path.dirname(os.path.abspath(__file__))
    p = subprocess.run([sys.executable, "-W", "ignore", os.path.join(here, "seeded", seed_id, "demo.py")], capture_output=True, text=True, timeout=900, env=dict(os.environ))
    return {"exit": p.returncode, "tail": (p.stdout + p.stderr)[-600:]}


def calibration_split_replay(n_rep=21, alpha=0.9):
    """REAL nonparametric estimator with three covariates and a number of reporting units close to the minimum: the units the
    two interval regressions are FITTED on (recorded through the weights handed to the solver) and the calibration units
    (the conformalization frame) must be disjoint and together all reporting units"""
    from elexsolver.QuantileRegressionSolver import QuantileRegressionSolver

    from elexmodel.models.NonparametricElectionModel import NonparametricElectionModel

    rng = np.random.default_rng(8)
    n_non = 5

    def frame(n, rep):
        last = (np.arange(n) * 37 + (1000 if rep else 9000) + rng.integers(0, 30, n)).astype(float)  # distinct weights identify units
        df = pd.DataFrame({"postal_code": "AA", "geographic_unit_fips": [f"{'r' if rep else 'n'}{i}" for i in range(n)], "reporting": int(rep), "unit_category": "expected"})
        df["last_election_results_turnout"] = last
        for f in ("f1", "f2", "f3"):
            df[f] = rng.normal(size=n)
        df["results_turnout"] = np.round(last * (1 + 0.05 * df.f1 + rng.normal(0, 0.05, n))) if rep else np.round(last * 0.1)
        df["residuals_turnout"] = (df["results_turnout"] - df["last_election_results_turnout"]) / df["last_election_results_turnout"]
        return df

    rep, non = frame(n_rep, True), frame(n_non, False)
    fits = []
    real_fit = QuantileRegressionSolver.fit

    def fit(self, x, y, *a, **k):
        w = k.get("weights", a[1] if len(a) > 1 else None)
        fits.append(sorted(float(v) for v in np.asarray(w).ravel()))
        return real_fit(self, x, y, *a, **k)

    out = {"exc": None}
    QuantileRegressionSolver.fit = fit
    try:
        m = NonparametricElectionModel({"features": ["f1", "f2", "f3"]})
        m.get_unit_predictions(rep, non, "turnout")
        fits.clear()
        pi = m.get_unit_prediction_intervals(rep, non, alpha, "turnout")
        cal = sorted(float(v) for v in pi.conformalization["last_election_results_turnout"])
        allw = sorted(float(v) for v in rep.last_election_results_turnout)
        out["n_fits"] = len(fits)
        out["n_train"], out["n_cal"], out["n_rep"] = len(fits[0]) if fits else None, len(cal), n_rep
        disjoint = all(not (set(f) & set(cal)) for f in fits)
        exhaustive = all(sorted(f + cal) == allw for f in fits)
        out["disjoint"], out["exhaustive"] = bool(disjoint), bool(exhaustive)
        out["ok"] = bool(len(fits) == 2 and disjoint and exhaustive)
    except Exception as e:  # noqa
        out["exc"] = f"{type(e).__name__}: {e}"
        out["ok"] = False
    finally:
        QuantileRegressionSolver.fit = real_fit
    return out


def repeat_bootstrap_run_replay():
    """REAL client, bootstrap estimator with the regularisation chosen by cross validation: the same request three times in
    ONE process (same client, same client again, fresh client) must return identical tables"""
    base = synthetic(60, seed=1)
    cur = feed(base, [100] * 40 + [35] * 20, seed=0)
    out = {"exc": None, "differences": []}
    try:
        from elexmodel.client import ModelClient

        c = ModelClient()
        runs = []
        for client in (c, c, None):
            _, r = run_client(cur, base, estimands=("margin",), pi_method="bootstrap", prediction_intervals=(0.9,), aggregates=("postal_code", "unit"), features=("baseline_normalized_margin",), model_parameters={"B": 25}, client=client)
            runs.append(r)
        for i in (1, 2):
            for tab in runs[0]:
                a, b = runs[0][tab], runs[i][tab]
                if not a.equals(b):
                    col = [cc for cc in a.columns if not a[cc].equals(b[cc])][:1]
                    out["differences"].append({"run": i + 1, "table": tab, "first_differing_column": col})
        out["differences"] = out["differences"][:4]
        out["ok"] = not out["differences"]
    except Exception as e:  # noqa
        out["exc"] = f"{type(e).__name__}: {e}"
        out["ok"] = False
    return out


def format_called_contests_replay():
    """REAL BootstrapElectionModel._format_called_contests(lhs, rhs, contests, 1, 0, -1) on every pair of call lists (length
    <= 2, names from three contests and one unknown name): it must raise iff some name is called for both sides or is not a
    contest, and otherwise return 1 / 0 / -1 per contest"""
    import itertools

    from elexmodel.models.BootstrapElectionModel import BootstrapElectionModel

    m = BootstrapElectionModel({"features": ["baseline_normalized_margin"], "B": 10})
    contests = ["a", "b", "c"]
    names = contests + ["zz"]
    lists = [[]] + [[x] for x in names] + [list(p) for p in itertools.permutations(names, 2)]
    out = {"exc": None, "failures": [], "cases": 0}
    # (the call lists are handed over as lists, and -- every third pair -- as tuples / sets: any container of names)
    for lhs in lists:
        for rhs in lists:
            out["cases"] += 1
            should_raise = bool(set(lhs) & set(rhs)) or bool((set(lhs) | set(rhs)) - set(contests))
            mk = (list, tuple, set)[out["cases"] % 3]
            try:
                r = m._format_called_contests(mk(lhs), mk(rhs), list(contests), 1, 0, -1)
                raised = None
            except Exception as e:  # noqa
                raised = type(e).__name__
            if should_raise != (raised is not None) or (raised not in (None, "BootstrapElectionModelException")):
                out["failures"].append({"lhs": lhs, "rhs": rhs, "container": mk.__name__, "contests": contests, "should_raise": should_raise, "raised": raised})
            elif raised is None:
                want = [1 if c in lhs else 0 if c in rhs else -1 for c in contests]
                if [int(v) for v in np.asarray(r).ravel()] != want:
                    out["failures"].append({"lhs": lhs, "rhs": rhs, "container": mk.__name__, "got": [int(v) for v in np.asarray(r).ravel()], "want": want})
    out["failures"] = out["failures"][:4]
    out["ok"] = not out["failures"]
    return out


def national_summary_dict_size_replay(correlated=False, hard=True):
    """REAL get_national_summary_estimates with weight dictionaries that are too small, right and too large (for 1 and 3
    contests): a dictionary of the wrong size must be rejected with the dedicated error, a right one accepted"""
    from elexmodel.models.BootstrapElectionModel import BootstrapElectionModel

    B = 20
    out = {"exc": None, "failures": []}
    rng = np.random.default_rng(3)
    allnames = ["a", "b", "c", "d", "e"]
    for n in (1, 3):
        for size in (n - 1, n, n + 1, n + 2, None):  # (None: no dictionary at all -- every contest weighs one, never rejected)
            m = BootstrapElectionModel({"features": ["baseline_normalized_margin"], "B": B, "agg_model_hard_threshold": hard, "national_summary_correlation": correlated})
            m.aggregate_pred_margin = np.array([[0.1 * (i + 1)] for i in range(n)])
            noise = rng.normal(0, 0.01, size=(n, B))
            m.divided_error_B_1, m.divided_error_B_2 = noise, noise * 0.5
            m.called_contests = np.full((n, 1), -1)
            m.stop_model_call = np.full((n, 1), False)
            d = None if size is None else {k: 5 + i for i, k in enumerate(allnames[:size])}
            try:
                m.get_national_summary_estimates(d, 100, 0.9)
                raised = None
            except Exception as e:  # noqa
                raised = type(e).__name__
            want = None if size in (n, None) else "BootstrapElectionModelException"
            if raised != want:
                out["failures"].append({"contests": n, "dictionary_size": size, "raised": raised, "expected": want})
    out["failures"] = out["failures"][:4]
    out["ok"] = not out["failures"]
    return out


def bootstrap_interval_nesting_replay():
    """REAL BootstrapElectionModel.get_aggregate_prediction_intervals (a finer-than-contest aggregate, bootstrap draws set
    by hand, many of them one-sided or within 0.001 of the prediction) at pairs of levels a < b: every group's interval
    must straddle its prediction and the level-b interval must contain the level-a interval"""
    from elexmodel.models.BootstrapElectionModel import BootstrapElectionModel

    out = {"exc": None, "failures": [], "cases": 0}
    try:
        rng = np.random.default_rng(5)
        B, G = 10, 3
        rep = pd.DataFrame({"postal_code": "AA", "county_fips": [f"c{g}" for g in range(G)], "geographic_unit_fips": [f"r{g}" for g in range(G)], "baseline_weights": 1000.0, "results_normalized_margin": [0.1, -0.2, 0.05], "turnout_factor": 1.0, "results_margin": [100.0, -200.0, 50.0], "reporting": 1})
        non = pd.DataFrame({"postal_code": "AA", "county_fips": [f"c{g}" for g in range(G)], "geographic_unit_fips": [f"n{g}" for g in range(G)], "baseline_weights": 1000.0, "results_weights": 10.0, "results_margin": 1.0, "reporting": 0})
        unx = rep.iloc[:0].assign(results_weights=[])
        for s in range(120):
            m = BootstrapElectionModel({"features": ["baseline_normalized_margin"], "B": B})
            m.B = B
            m.ran_bootstrap = True
            ztot = 2000.0
            scale = rng.choice([0.0003, 0.002, 0.02], size=(G, 1))
            shift = rng.choice([-1.0, 0.0, 1.0], size=(G, 1)) * scale
            e = rng.normal(0, 1, size=(G, B)) * scale + shift
            m.errors_B_1 = e * ztot  # sum w*y*z of the draw
            m.errors_B_2 = np.zeros((G, B))
            m.errors_B_3 = np.full((G, B), 1000.0)
            m.errors_B_4 = np.full((G, B), 1000.0)
            m.weighted_z_test_pred = np.full((G, 1), 1000.0)
            m.weighted_yz_test_pred = np.array([[30.0], [-60.0], [10.0]])
            a, b = sorted(rng.choice([0.5, 0.6, 0.7, 0.8, 0.9, 0.95], size=2, replace=False))
            pa = m.get_aggregate_prediction_intervals(rep, non, unx, ["postal_code", "county_fips"], float(a), None, "margin")
            pb = m.get_aggregate_prediction_intervals(rep, non, unx, ["postal_code", "county_fips"], float(b), None, "margin")
            pred = (np.array([100.0, -200.0, 50.0]) + np.array([30.0, -60.0, 10.0])) / 2000.0
            la, ua, lb, ub = (np.asarray(x, dtype=float).ravel() for x in (pa.lower, pa.upper, pb.lower, pb.upper))
            out["cases"] += 1
            for g in range(G):
                if not (la[g] < pred[g] < ua[g] and lb[g] < pred[g] < ub[g] and lb[g] <= la[g] + 1e-12 and ua[g] <= ub[g] + 1e-12):
                    out["failures"].append({"scenario": s, "group": g, "levels": [float(a), float(b)], "pred": float(pred[g]), "narrow": [float(la[g]), float(ua[g])], "wide": [float(lb[g]), float(ub[g])]})
        out["failures"] = out["failures"][:4]
        out["ok"] = not out["failures"]
    except Exception as e:  # noqa
        import traceback

        out["exc"] = f"{type(e).__name__}: {e}"
        out["trace"] = traceback.format_exc()[-600:]
        out["ok"] = False
    return out


def bootstrap_counted_margin_replay(keys=("postal_code", "county_classification")):
    """REAL BootstrapElectionModel.get_aggregate_predictions, third frame holding a non-modelled unit WITH a county /
    classification / district and an unexpected unit without a classification: the counted-margin column of every group
    must be the live margin of its attributable units (classification tables: modelled units only) divided by the predicted
    two-party turnout of the SAME units, and pred_turnout that denominator"""
    from elexmodel.models.BootstrapElectionModel import BootstrapElectionModel

    keys = list(keys)
    m = BootstrapElectionModel({"features": ["baseline_normalized_margin"], "B": 10})
    common = lambda n: {"postal_code": ["AA"] * n, "district": ["d1"] * n}  # noqa: E731
    rep = pd.DataFrame({**common(2), "county_fips": ["c1", "c2"], "county_classification": ["urban", "rural"], "geographic_unit_fips": ["a1", "a2"], "baseline_weights": [1000.0, 800.0], "results_normalized_margin": [0.1, -0.2], "turnout_factor": [1.1, 0.9], "results_margin": [110.0, -144.0], "pred_margin": [110.0, -144.0], "results_weights": [1100.0, 720.0], "reporting": 1})
    non = pd.DataFrame({**common(2), "county_fips": ["c1", "c2"], "county_classification": ["urban", "rural"], "geographic_unit_fips": ["n1", "n2"], "baseline_weights": [400.0, 500.0], "results_weights": [140.0, 50.0], "results_margin": [40.0, 5.0], "pred_margin": [30.0, -60.0], "reporting": 0})
    # (x3: a group of its own -- state ZZ / county c9 / district d9 -- that consists of ONE unexpected unit with no votes at
    # all: predicted turnout exactly 0; its counted and predicted margin must come out as 0, not as a missing value)
    unx = pd.DataFrame({"postal_code": ["AA", "AA", "ZZ"], "district": ["d1", "d1", "d9"], "county_fips": ["c1", "c2", "c9"], "county_classification": ["urban", np.nan, np.nan], "geographic_unit_fips": ["x1", "x2", "x3"], "results_weights": [70.0, 30.0, 0.0], "results_margin": [10.0, -6.0, 0.0], "pred_margin": [10.0, -6.0, 0.0], "reporting": [0, 0, 0]})
    for f in (rep, non, unx):
        for c in ("baseline_dem", "baseline_gop", "baseline_turnout"):
            f[c] = 1.0
    m.weighted_z_test_pred = np.array([[300.0], [450.0]])
    m.weighted_yz_test_pred = np.array([[30.0], [-60.0]])
    m.ran_bootstrap = True
    out = {"exc": None, "failures": []}
    try:
        est = m.get_aggregate_predictions(rep, non, unx, keys, "margin", lhs_called_contests=[], rhs_called_contests=[])
        classification = "county_classification" in keys
        zrep = dict(zip(rep.geographic_unit_fips, rep.baseline_weights * rep.turnout_factor))
        znon = dict(zip(non.geographic_unit_fips, [300.0, 450.0]))
        for _, row in est.iterrows():
            def inside(f):
                msk = np.ones(len(f), dtype=bool)
                for k in keys:
                    msk &= (f[k] == row[k]).to_numpy()
                return f[msk]

            r, n_, x = inside(rep), inside(non), (unx.iloc[:0] if classification else inside(unx))
            den = sum(zrep[u] for u in r.geographic_unit_fips) + sum(znon[u] for u in n_.geographic_unit_fips) + float(x.results_weights.sum())
            num = float(r.results_margin.sum() + n_.results_margin.sum() + x.results_margin.sum())
            want = 0.0 if den == 0 else num / den
            if not (abs(float(row["pred_turnout"]) - den) <= 1e-6 and abs(float(row["results_margin"]) - want) <= 1e-9 and np.isfinite(float(row["pred_margin"]))):
                out["failures"].append({"group": [str(row[k]) for k in keys], "pred_turnout": float(row["pred_turnout"]), "turnout_of_attributable_units": den, "results_margin": float(row["results_margin"]), "want": want})
        out["groups"] = int(len(est))
        out["ok"] = not out["failures"] and len(est) > 0
    except Exception as e:  # noqa
        out["exc"] = f"{type(e).__name__}: {e}"
        out["ok"] = False
    return out


def derived_quantities_replay(unit, policy, estimands, prepared=False):
    """REAL Estimandizer + CombinedDataHandler.__init__ on a 3-unit election whose first unit has the solver's values; with
    prepared=True the feed first goes through MockLiveDataHandler.load_data's steps (real add_estimand_results, only the
    returned columns kept), as in a historical / command-line run.  The derived columns of that unit on the joined table
    must follow their definitions: weights = dem + gop (margin) or turnout, turnout factor = results weights / baseline
    weights, normalised margin = margin / weights, each 0 when its denominator is 0.
    unit: dict(baseline_turnout/dem/gop, results_turnout/dem/gop, pev)"""
    from elexmodel.handlers.data.CombinedData import CombinedDataHandler
    from elexmodel.handlers.data.Estimandizer import Estimandizer

    uid = "X_0001"
    base_rows = [{"postal_code": "AA", "geographic_unit_fips": uid, "county_fips": "c0", "baseline_turnout": unit["baseline_turnout"], "baseline_dem": unit["baseline_dem"], "baseline_gop": unit["baseline_gop"]}]
    feed_rows = [{"postal_code": "AA", "geographic_unit_fips": uid, "results_turnout": unit["results_turnout"], "results_dem": unit["results_dem"], "results_gop": unit["results_gop"], "percent_expected_vote": unit["pev"]}]
    for i, pct in enumerate((100, 10)):
        fid = f"F_{i}"
        base_rows.append({"postal_code": "ZZ", "geographic_unit_fips": fid, "county_fips": "c1", "baseline_turnout": 1000, "baseline_dem": 500, "baseline_gop": 450})
        feed_rows.append({"postal_code": "ZZ", "geographic_unit_fips": fid, "results_turnout": 1100 * pct // 100, "results_dem": 560 * pct // 100, "results_gop": 500 * pct // 100, "percent_expected_vote": pct})
    # a baseline unit that is ABSENT from the feed: under the policy "zero" it is kept with zero counts, and its derived columns
    # follow the definitions too (turnout factor 0, not a missing value)
    base_rows.append({"postal_code": "ZZ", "geographic_unit_fips": "F_absent", "county_fips": "c1", "baseline_turnout": 800, "baseline_dem": 400, "baseline_gop": 300})
    base = pd.DataFrame(base_rows).astype({"baseline_turnout": float, "baseline_dem": float, "baseline_gop": float})
    cur = pd.DataFrame(feed_rows).astype({"results_turnout": float, "results_dem": float, "results_gop": float})
    out = {"exc": None, "failures": []}
    try:
        with warnings.catch_warnings():
            warnings.simplefilter("ignore")
            pre = Estimandizer().add_estimand_baselines(base, {e: e for e in estimands}, False)
            if prepared:
                cur, cols = Estimandizer().add_estimand_results(cur, list(estimands), False)
                cur = cur[["postal_code", "geographic_unit_fips", "percent_expected_vote"] + cols].copy()
            h = CombinedDataHandler(pre, cur, list(estimands), "county", handle_unreporting=policy)
        row = h.data[h.data.geographic_unit_fips == uid].iloc[0]
        d0 = lambda a, b: 0.0 if b == 0 else a / b  # noqa: E731
        margin = "margin" in estimands
        rw = unit["results_dem"] + unit["results_gop"] if margin else unit["results_turnout"]
        bw = unit["baseline_dem"] + unit["baseline_gop"] if margin else unit["baseline_turnout"]
        want = {"results_weights": rw, "baseline_weights": bw, "turnout_factor": d0(rw, bw)}
        if margin:
            want["results_margin"] = unit["results_dem"] - unit["results_gop"]
            want["results_normalized_margin"] = d0(unit["results_dem"] - unit["results_gop"], rw)
        for k, v in want.items():
            got = float(row[k])
            if not (abs(got - v) <= 1e-9 * max(1.0, abs(v))):
                out["failures"].append({"column": k, "got": got, "definition": v})
        if policy == "zero":
            ab = h.data[h.data.geographic_unit_fips == "F_absent"]
            if len(ab) != 1 or not (float(ab.turnout_factor.iloc[0]) == 0.0):
                out["failures"].append({"unit": "F_absent (in the baseline, not in the feed)", "rows": int(len(ab)), "turnout_factor": float(ab.turnout_factor.iloc[0]) if len(ab) else None, "definition": 0.0})
        out["ok"] = not out["failures"]
    except Exception as e:  # noqa
        out["exc"] = f"{type(e).__name__}: {e}"
        out["ok"] = False
    return out


def weighted_median_replay():
    """REAL math_utils.weighted_median on a battery of arrays (ties, a first element heavier than one half, a running
    total that hits one half exactly, a single row, weights as the caller builds them: w_i / sum w with dyadic w so that
    the float sums are exact): the result m must be a weighted median -- weight below m <= 1/2 and weight above m <= 1/2"""
    from elexmodel.utils.math_utils import weighted_median

    rng = np.random.default_rng(7)
    cases = [
        (np.array([3.0]), np.array([1.0])),
        (np.array([1.0, 2.0]), np.array([0.5, 0.5])),
        (np.array([2.0, 1.0]), np.array([0.75, 0.25])),
        (np.array([1.0, 2.0, 3.0]), np.array([0.25, 0.25, 0.5])),
        (np.array([5.0, 5.0, 5.0, 1.0]), np.array([0.25, 0.25, 0.25, 0.25])),
        (np.array([1.0, 2.0, 2.0, 3.0]), np.array([0.25, 0.25, 0.25, 0.25])),
        (np.array([4.0, 1.0, 3.0, 2.0]), np.array([0.125, 0.375, 0.25, 0.25])),
    ]
    for _ in range(300):
        n = int(rng.integers(1, 9))
        raw = rng.integers(1, 9, n).astype(float)
        tot = raw.sum()
        # dyadic totals only, so that w_i / total and the running totals are exact in floating point
        if tot not in (1.0, 2.0, 4.0, 8.0, 16.0, 32.0, 64.0):
            raw[0] += 2 ** np.ceil(np.log2(tot)) - tot
            tot = raw.sum()
        cases.append((rng.integers(0, 5, n).astype(float), raw / tot))
    out = {"exc": None, "failures": [], "cases": len(cases)}
    try:
        for x, w in cases:
            with warnings.catch_warnings():
                warnings.simplefilter("ignore")
                m = float(weighted_median(x.copy(), w.copy()))
            below, above = float(w[x < m].sum()), float(w[x > m].sum())
            if not (below <= 0.5 and above <= 0.5):
                out["failures"].append({"x": x.tolist(), "weights": w.tolist(), "result": m, "weight_below": below, "weight_above": above})
        out["failures"] = out["failures"][:4]
        out["ok"] = not out["failures"]
    except Exception as e:  # noqa
        out["exc"] = f"{type(e).__name__}: {e}"
        out["ok"] = False
    return out


def weighted_median_order_replay():
    """REAL math_utils.weighted_median on the same rows in several orders (all permutations for n <= 5, reversed / rotated /
    random ones above; strictly positive dyadic weights, ties in the scores): the result must not depend on the order"""
    import itertools

    from elexmodel.utils.math_utils import weighted_median

    rng = np.random.default_rng(9)
    out = {"exc": None, "failures": [], "cases": 0}
    try:
        for _ in range(150):
            n = int(rng.integers(1, 8))
            raw = rng.integers(1, 9, n).astype(float)
            tot = raw.sum()
            if tot not in (1.0, 2.0, 4.0, 8.0, 16.0, 32.0, 64.0):
                raw[0] += 2 ** np.ceil(np.log2(tot)) - tot
                tot = raw.sum()
            x, w = rng.integers(0, 4, n).astype(float), raw / tot
            perms = list(itertools.permutations(range(n))) if n <= 5 else [tuple(range(n)), tuple(reversed(range(n))), tuple(np.roll(np.arange(n), 1))] + [tuple(rng.permutation(n)) for _ in range(20)]
            results = set()
            for p_ in perms:
                idx = np.array(p_, dtype=int)
                with warnings.catch_warnings():
                    warnings.simplefilter("ignore")
                    results.add(float(weighted_median(x[idx].copy(), w[idx].copy())))
            out["cases"] += 1
            if len(results) != 1:
                out["failures"].append({"x": x.tolist(), "weights": w.tolist(), "results_over_the_orders": sorted(results)})
        out["failures"] = out["failures"][:4]
        out["ok"] = not out["failures"]
    except Exception as e:  # noqa
        out["exc"] = f"{type(e).__name__}: {e}"
        out["ok"] = False
    return out


def failing_solve_tables_replay():
    """REAL client (nonparametric, two vote-count estimands, two levels): ONE fault (SolverError, then UserWarning) is injected
    into the k-th per-quantile solve of the installed solver that runs with normalised weights, for every k of the run; the
    run must complete, the solve right after the failed one must be for the SAME quantile with un-normalised weights, and
    the tables must equal those of the fault-free run (unregularised fits: same optimum; whole-number columns within 1)"""
    import cvxpy
    from elexsolver.QuantileRegressionSolver import QuantileRegressionSolver

    base = synthetic(70, seed=6)
    cur = feed(base, [100] * 45 + [30] * 25)
    real__fit = QuantileRegressionSolver._fit
    out = {"exc": None, "problems": [], "positions": 0}

    def run(fail_at, kind):
        log = []
        state = {"n": 0, "failed": False}

        def _fit(self, x, y, weights, tau):
            normalised = abs(float(np.sum(weights)) - 1.0) < 1e-9
            log.append((round(float(tau), 6), normalised))
            if normalised and not state["failed"]:
                k = state["n"]
                state["n"] += 1
                if k == fail_at:
                    state["failed"] = True
                    if kind == "SolverError":
                        raise cvxpy.error.SolverError("injected")
                    raise UserWarning("Solution may be inaccurate. (injected)")
            return real__fit(self, x, y, weights, tau)

        QuantileRegressionSolver._fit = _fit
        try:
            with warnings.catch_warnings():
                warnings.simplefilter("ignore")
                _, r = run_client(cur, base, estimands=("turnout", "dem"), pi_method="nonparametric", prediction_intervals=(0.7, 0.9), aggregates=("postal_code", "unit"))
        finally:
            QuantileRegressionSolver._fit = real__fit
        return r, log, state

    try:
        ref, log0, _ = run(-1, "SolverError")
        n_solves = len(log0)
        out["positions"] = n_solves
        for kind in ("SolverError", "UserWarning"):
            for k in range(n_solves):
                try:
                    r, log, st = run(k, kind)
                except Exception as e:  # noqa
                    out["problems"].append({"fault_at": k, "kind": kind, "what": f"the run did not complete: {type(e).__name__}: {e}"[:200]})
                    continue
                pos = next(i for i, (_t, nrm) in enumerate(log) if nrm and sum(1 for (_t2, n2) in log[: i + 1] if n2) == k + 1)
                if pos + 1 >= len(log) or log[pos + 1][0] != log[pos][0] or log[pos + 1][1]:
                    out["problems"].append({"fault_at": k, "kind": kind, "what": "the solve after the failed one is not the same quantile without weight normalisation", "failed": log[pos], "next": log[pos + 1] if pos + 1 < len(log) else None})
                    continue
                for tab in ref:
                    a, b = ref[tab], r[tab]
                    for col in a.columns:
                        if a[col].dtype.kind in "fiu":
                            d = np.abs(np.asarray(a[col], dtype=float) - np.asarray(b[col], dtype=float))
                            if len(d) and np.nanmax(d) > 1.0:
                                out["problems"].append({"fault_at": k, "kind": kind, "table": tab, "column": col, "fault_free": float(np.asarray(a[col], dtype=float)[int(np.nanargmax(d))]), "with_fault": float(np.asarray(b[col], dtype=float)[int(np.nanargmax(d))])})
                                break
                    else:
                        continue
                    break
        out["problems"] = out["problems"][:4]
        out["ok"] = not out["problems"] and n_solves >= 6
    except Exception as e:  # noqa
        import traceback

        out["exc"] = f"{type(e).__name__}: {e}"
        out["trace"] = traceback.format_exc()[-500:]
        out["ok"] = False
    return out


def inaccurate_solution_replay():
    """REAL fit_model on the regularised (cvxpy) path with the solver's FIRST solve reporting status optimal_inaccurate
    (injected where cvxpy turns solver output into a status; cvxpy itself then issues its 'Solution may be inaccurate'
    warning through its own code path): the fit must be attempted a second time without weight normalisation"""
    import cvxpy.settings as cs
    from cvxpy.reductions.solvers.solving_chain import SolvingChain
    from elexsolver.QuantileRegressionSolver import QuantileRegressionSolver

    import elexmodel.models.ConformalElectionModel as CM
    from elexmodel.models.NonparametricElectionModel import NonparametricElectionModel

    real_invert, real_fit = SolvingChain.invert, QuantileRegressionSolver.fit
    state, log = {"n": 0}, []

    def invert(self, solution, inverse_data):
        sol = real_invert(self, solution, inverse_data)
        state["n"] += 1
        if state["n"] == 1:
            sol.status = cs.OPTIMAL_INACCURATE
        return sol

    def fit(self, *a, **k):
        log.append(bool(k.get("normalize_weights", True)))
        return real_fit(self, *a, **k)

    out = {"exc": None}
    SolvingChain.invert, QuantileRegressionSolver.fit = invert, fit
    try:
        with warnings.catch_warnings():
            warnings.resetwarnings()
            # install the module's OWN top-level warning filter statements (from its source text) in this fresh filter list
            import ast as _ast
            import inspect as _inspect

            for node in _ast.parse(_inspect.getsource(CM)).body:
                if isinstance(node, _ast.Expr) and isinstance(node.value, _ast.Call) and _ast.unparse(node.value.func) == "warnings.filterwarnings":
                    exec(compile(_ast.Module([node], []), "<the module's filter>", "exec"), {"warnings": warnings})
            m = NonparametricElectionModel({"lambda_": 1.0})
            rng = np.random.default_rng(0)
            X = pd.DataFrame({"intercept": np.ones(20), "f": rng.normal(size=20)})
            y, w = pd.Series(rng.normal(size=20)), pd.Series(rng.uniform(1, 3, size=20))
            m.fit_model(QuantileRegressionSolver(), X, y, 0.5, w, True)
    except Exception as e:  # noqa
        out["exc"] = f"{type(e).__name__}: {e}"
    finally:
        SolvingChain.invert, QuantileRegressionSolver.fit = real_invert, real_fit
    out["attempts_normalize_weights"] = log
    out["solves"] = state["n"]
    out["ok"] = out["exc"] is None and log == [True, False]
    return out


def population_correction_replay():
    """REAL NonparametricElectionModel._compute_population_correction on hand-built and random calibration sets (unequal
    baselines, tied scores, cumulative shares that land within 0.005 of the quantile on either side; dyadic baseline totals
    so that the float shares are exact): the correction c must be a calibration score, the baseline-weighted share of the
    calibration units with score <= c must EXCEED q, and no smaller calibration score may have that property"""
    from fractions import Fraction

    from elexmodel.models.NonparametricElectionModel import NonparametricElectionModel

    m = NonparametricElectionModel({})
    rng = np.random.default_rng(12)
    cases = [([50] * 16 + [146, 30, 24], list(range(19)), 0.9 * (1 + 1 / 19))]
    # calibration units of EQUAL baseline size (the setting of the coverage clause), several sizes and levels
    for n_eq, al in ((20, 0.9), (20, 0.7), (16, 0.8), (32, 0.95), (8, 0.7)):
        cases.append(([64] * n_eq, [float(v) for v in rng.permutation(n_eq)], al * (1 + 1 / n_eq)))
    for _ in range(400):
        n = int(rng.integers(2, 40))
        raw = rng.integers(1, 60, n).astype(int)
        tot = int(raw.sum())
        p2 = 1
        while p2 < tot:
            p2 *= 2
        raw[0] += p2 - tot
        scores = rng.integers(0, max(2, n // 2), n) / 8.0 if rng.random() < 0.5 else rng.permutation(n) / 8.0
        # a quantile close to a reachable cumulative share (below, at, or above it)
        order = np.argsort(scores, kind="stable")
        cum = np.cumsum(raw[order]) / p2
        k = int(rng.integers(0, n))
        q = float(min(0.995, max(0.01, cum[k] + rng.choice([-0.004, -0.0005, 0.0, 0.0005, 0.004]))))
        if q >= 1.0:
            continue
        cases.append((raw.tolist(), scores.tolist(), q))
    out = {"exc": None, "failures": [], "cases": len(cases)}
    try:
        for base, scores, q in cases:
            df = pd.DataFrame({"last_election_results_turnout": np.asarray(base, dtype=float)})
            sc = pd.Series(np.asarray(scores, dtype=float))
            c = float(m._compute_population_correction(df, sc, q, "turnout"))
            tot = Fraction(sum(int(b) for b in base))
            share = lambda v: sum(Fraction(int(b)) for b, s_ in zip(base, scores) if float(s_) <= v) / tot  # noqa: E731
            qf = Fraction(q)
            ok = any(float(s_) == c for s_ in scores) and share(c) > qf and all(not (share(float(s_)) > qf) for s_ in scores if float(s_) < c)
            if not ok:
                out["failures"].append({"baselines": base[:12], "scores": [float(s_) for s_ in scores[:12]], "q": q, "correction": c, "share_covered": float(share(c)), "n": len(base)})
        out["failures"] = out["failures"][:4]
        out["ok"] = not out["failures"]
    except Exception as e:  # noqa
        out["exc"] = f"{type(e).__name__}: {e}"
        out["ok"] = False
    return out


def unit_table_prediction_replay():
    """REAL ModelResultsHandler (add_unit_predictions, add_unit_intervals) with hand-made predictions and bounds in which one
    outstanding unit's prediction lies OUTSIDE its 0.7 interval and another's outside its 0.9 interval: the prediction column
    of the unit table must be the given predictions -- whichever levels are requested, in whichever order -- and the bounds
    the given bounds"""
    from elexmodel.handlers.data.ModelResults import ModelResultsHandler
    from elexmodel.models.ConformalElectionModel import PredictionIntervals

    def frames_():
        rep = pd.DataFrame({"postal_code": "AA", "geographic_unit_fips": ["r1", "r2"], "results_turnout": [100.0, 50.0], "reporting": 1, "unit_category": "expected"})
        non = pd.DataFrame({"postal_code": "AA", "geographic_unit_fips": ["n1", "n2", "n3"], "results_turnout": [10.0, 0.0, 5.0], "reporting": 0, "unit_category": "expected"})
        unx = pd.DataFrame({"postal_code": "AA", "geographic_unit_fips": ["x1"], "results_turnout": [7.0], "reporting": 0, "unit_category": "unexpected"})
        return rep, non, unx

    preds = np.array([400.0, 90.0, 30.0])
    bounds = {0.7: (np.array([350.0, 95.0, 20.0]), np.array([380.0, 120.0, 44.0])), 0.9: (np.array([300.0, 60.0, 31.0]), np.array([500.0, 150.0, 60.0]))}
    out = {"exc": None, "problems": []}
    try:
        for levels in ([0.7], [0.9], [0.7, 0.9], [0.9, 0.7]):
            rep, non, unx = frames_()
            mr = ModelResultsHandler(["postal_code", "unit"], list(levels), rep, non, unx)
            mr.add_unit_predictions("turnout", preds.copy())
            mr.add_unit_intervals("turnout", {a: PredictionIntervals(bounds[a][0].copy(), bounds[a][1].copy()) for a in levels})
            ud = mr.unit_data["turnout"].set_index("geographic_unit_fips")
            for i, uid in enumerate(["n1", "n2", "n3"]):
                if float(ud.loc[uid, "pred_turnout"]) != preds[i]:
                    out["problems"].append({"levels": levels, "unit": uid, "prediction_given": float(preds[i]), "prediction_in_the_table": float(ud.loc[uid, "pred_turnout"])})
                for a in levels:
                    if float(ud.loc[uid, f"lower_{a}_turnout"]) != bounds[a][0][i] or float(ud.loc[uid, f"upper_{a}_turnout"]) != bounds[a][1][i]:
                        out["problems"].append({"levels": levels, "unit": uid, "level": a, "what": "bounds in the table are not the given bounds"})
        out["problems"] = out["problems"][:4]
        out["ok"] = not out["problems"]
    except Exception as e:  # noqa
        out["exc"] = f"{type(e).__name__}: {e}"
        out["ok"] = False
    return out


def robust_correction_replay():
    """REAL NonparametricElectionModel(robust=True) on synthetic elections with unequal baselines: the correction recovered
    from the reported intervals of outstanding units that are not floored must be the LARGER of the population correction
    (real _compute_population_correction) and np.quantile(scores, alpha*(1+1/n_cal)) -- and with robust=False the population
    correction"""
    from elexmodel.models.NonparametricElectionModel import NonparametricElectionModel

    out = {"exc": None, "problems": []}
    try:
        # (the last cases: the number of reporting units is the MINIMUM for the level -- floor(n * conf_frac) is 0, the training
        # set is clamped to one row and the calibration set has n - 1 units, which is what the quantile level must use)
        cases = [(seed, None, (0.7, 0.9)) for seed in range(6)] + [(10, 6, (0.7,)), (11, 4, (0.6,)), (12, 13, (0.85,)), (13, 7, (0.75,))]
        for seed, n_fixed, alphas in cases:
            rng = np.random.default_rng(40 + seed)
            n_rep, n_non = int(rng.integers(45, 90)), 8
            if n_fixed is not None:
                n_rep = n_fixed
            def frame(n, rep):
                last = np.exp(rng.normal(7, 1.2, n)).round() + 1
                df = pd.DataFrame({"postal_code": "AA", "geographic_unit_fips": [f"{'r' if rep else 'n'}{i}" for i in range(n)], "reporting": int(rep), "unit_category": "expected", "last_election_results_turnout": last})
                df["results_turnout"] = np.round(last * (1 + rng.normal(0.03, 0.15, n))) if rep else 0.0
                df["residuals_turnout"] = (df.results_turnout - last) / last
                return df
            rep, non = frame(n_rep, True), frame(n_non, False)
            for robust in (True, False):
                for alpha in alphas:
                    m = NonparametricElectionModel({"robust": robust})
                    with warnings.catch_warnings():
                        warnings.simplefilter("ignore")
                        m.get_unit_predictions(rep.copy(), non.copy(), "turnout")
                        pi = m.get_unit_prediction_intervals(rep.copy(), non.copy(), alpha, "turnout")
                    conf = pi.conformalization
                    scores = np.maximum(conf.lower_bounds, conf.upper_bounds)
                    q = alpha * (1 + 1 / conf.shape[0])
                    popc = float(m._compute_population_correction(conf, scores, q, "turnout"))
                    plain = float(np.quantile(scores, q=q))
                    want = max(plain, popc) if robust else popc
                    # m.nonreporting_lower_bounds was (raw lower - correction) before un-normalising IN PLACE: recover the
                    # correction from the width instead: (upper - lower)/last = raw width + 2c ; raw width from a second model
                    m0 = NonparametricElectionModel({"robust": robust})
                    with warnings.catch_warnings():
                        warnings.simplefilter("ignore")
                        m0.get_unit_predictions(rep.copy(), non.copy(), "turnout")
                        raw = m0.get_unit_prediction_interval_bounds(rep.copy(), non.copy(), m0._compute_conf_frac(rep.shape[0], alpha), alpha, "turnout")
                    last = non.last_election_results_turnout.to_numpy()
                    lo_want = np.round(np.maximum((np.asarray(raw.lower) - want) * last + last, 0.0))
                    up_want = np.round(np.maximum((np.asarray(raw.upper) + want) * last + last, 0.0))
                    if np.max(np.abs(np.asarray(pi.lower, dtype=float) - lo_want)) > 1 or np.max(np.abs(np.asarray(pi.upper, dtype=float) - up_want)) > 1:
                        out["problems"].append({"seed": seed, "robust": robust, "alpha": alpha, "population_correction": popc, "plain_quantile": plain, "expected_correction": want, "upper_reported": float(np.asarray(pi.upper, dtype=float)[0]), "upper_expected": float(up_want[0])})
        out["problems"] = out["problems"][:4]
        out["ok"] = not out["problems"]
    except Exception as e:  # noqa
        import traceback

        out["exc"] = f"{type(e).__name__}: {e}"
        out["trace"] = traceback.format_exc()[-500:]
        out["ok"] = False
    return out


def duplicate_units_replay():
    """REAL client: a feed (and baseline) in which one reporting unit id occurs twice must be rejected with
    ModelClientException; the same election without the duplicate must complete"""
    from elexmodel.client import ModelClientException

    base = synthetic(40, seed=3)
    cur = feed(base, [100] * 30 + [30] * 10)
    out = {"exc": None, "problems": []}
    try:
        with warnings.catch_warnings():
            warnings.simplefilter("ignore")
            run_client(cur, base, estimands=("turnout",), pi_method="nonparametric", prediction_intervals=(0.9,), aggregates=("postal_code", "unit"))
        # duplicate one reporting unit in both tables (a duplicated feed row alone is merged away by the join)
        dup_id = cur.geographic_unit_fips.iloc[0]
        cur2 = pd.concat([cur, cur[cur.geographic_unit_fips == dup_id]], ignore_index=True)
        try:
            with warnings.catch_warnings():
                warnings.simplefilter("ignore")
                run_client(cur2, base, estimands=("turnout",), pi_method="nonparametric", prediction_intervals=(0.9,), aggregates=("postal_code", "unit"))
            out["problems"].append({"what": "a feed with a reporting unit id that occurs twice was accepted", "unit": str(dup_id)})
        except ModelClientException as e:
            out["rejected_with"] = str(e)[:120]
        except Exception as e:  # noqa
            out["problems"].append({"what": "rejected, but not with the client error", "exc": f"{type(e).__name__}: {e}"[:200]})
        out["ok"] = not out["problems"]
    except Exception as e:  # noqa
        out["exc"] = f"{type(e).__name__}: {e}"
        out["ok"] = False
    return out


def versioned_histories_replay():
    """REAL VersionedDataHandler.compute_versioned_margin_estimate on a frame holding SEVERAL units whose versions are
    interleaved, with a last_modified column and a missing cell: (u1) an erroneous update that is reverted -- A, B, A, A:
    turnout goes down -> irregular: only missing corrections, error type recorded, 101 rows; (u2) the expected-vote
    percentage re-scaled and re-scaled back -- its latest percent is 50 -> exactly the percents 0..50; (u3) consecutive
    identical versions -> regular, percents 0..100, margins within [-1, 1]"""
    from elexmodel.handlers.data.VersionedData import VersionedDataHandler

    def rows(uid, hist):
        out = []
        for k, (d, g, t, pev) in enumerate(hist):
            w = d + g
            out.append({"geographic_unit_fips": uid, "results_dem": float(d), "results_gop": float(g), "results_weights": float(w), "results_turnout": float(t), "percent_expected_vote": float(pev), "results_normalized_margin": (d - g) / w if w else 0.0, "last_modified": pd.Timestamp("2024-11-05 20:00") + pd.Timedelta(minutes=7 * k)})
        return out

    u1 = rows("u1", [(600, 400, 1000, 20), (3000, 2000, 5000, 100), (600, 400, 1000, 20), (600, 400, 1000, 20)])
    u2 = rows("u2", [(500, 300, 800, 40), (600, 400, 1000, 50), (600, 400, 1000, 62), (600, 400, 1000, 50)])
    u3 = rows("u3", [(100, 100, 200, 10), (100, 100, 200, 10), (400, 300, 700, 40), (900, 800, 1700, 100), (900, 800, 1700, 100)])
    inter = []
    for i in range(5):
        for u in (u3, u1, u2):
            if i < len(u):
                inter.append(u[i])
    df = pd.DataFrame(inter)
    df.loc[df.index[2], "results_gop"] = df.loc[df.index[2], "results_gop"]  # (keep dtype float)
    out = {"exc": None, "problems": []}
    try:
        h = VersionedDataHandler.__new__(VersionedDataHandler)
        with warnings.catch_warnings():
            warnings.simplefilter("ignore")
            res = h.compute_versioned_margin_estimate(df.copy())
        r1, r2, r3 = (res[res.geographic_unit_fips == u] for u in ("u1", "u2", "u3"))
        if not (len(r1) == 101 and r1.est_correction.isna().all() and r1.est_margin.isna().all() and set(map(str, r1.error_type)) != {"none"}):
            out["problems"].append({"unit": "u1", "what": "a history whose turnout goes down (update reverted) was not discarded", "rows": int(len(r1)), "error_types": sorted(set(map(str, r1.error_type))), "missing_corrections": int(r1.est_correction.isna().sum())})
        p2 = sorted(int(x) for x in r2.percent_expected_vote)
        if not (set(map(str, r2.error_type)) == {"none"} and p2 == list(range(0, 51))):
            out["problems"].append({"unit": "u2", "what": "percents produced are not 0..latest percent (50)", "first_last": [p2[0], p2[-1]] if p2 else None, "error_types": sorted(set(map(str, r2.error_type)))})
        p3 = sorted(int(x) for x in r3.percent_expected_vote)
        if not (set(map(str, r3.error_type)) == {"none"} and p3 == list(range(0, 101)) and (r3.est_margin.abs() <= 1 + 1e-12).all()):
            out["problems"].append({"unit": "u3", "what": "a regular history with repeated consecutive versions is not interpolated for 0..100 within [-1, 1]", "first_last": [p3[0], p3[-1]] if p3 else None})
        out["ok"] = not out["problems"]
    except Exception as e:  # noqa
        import traceback

        out["exc"] = f"{type(e).__name__}: {e}"
        out["trace"] = traceback.format_exc()[-500:]
        out["ok"] = False
    return out


def aggregate_independence_replay(pi_method="gaussian"):
    """REAL client: the table of one aggregate level must be the same whether that level is requested alone or together
    with other aggregate levels, in either order"""
    base = synthetic(90, seed=4)
    cur = feed(base, [100] * 55 + [30] * 35)
    out = {"exc": None, "differences": []}
    try:
        runs = {}
        levels = ("postal_code", "county_fips", "county_classification")
        for name, aggs in (("postal_code", ("postal_code",)), ("county_fips", ("county_fips",)), ("county_classification", ("county_classification",)), ("all", levels), ("all_reversed", tuple(reversed(levels)))):
            with warnings.catch_warnings():
                warnings.simplefilter("ignore")
                _, r = run_client(cur, base, estimands=("turnout",), pi_method=pi_method, prediction_intervals=(0.7, 0.9), aggregates=aggs)
            runs[name] = r
        tabs = {"postal_code": "state_data", "county_fips": "county_data", "county_classification": "classification_data"}
        for lvl, tab in tabs.items():
            a = runs[lvl][tab]
            for together in ("all", "all_reversed"):
                b = runs[together][tab]
                for col in a.columns:
                    if col in b and a[col].dtype.kind in "fiu" and not np.array_equal(np.asarray(a[col]), np.asarray(b[col])):
                        i = int(np.argmax(np.asarray(a[col]) != np.asarray(b[col])))
                        out["differences"].append({"level": lvl, "requested_with": together, "column": col, "alone": float(np.asarray(a[col])[i]), "together": float(np.asarray(b[col])[i])})
                        break
        out["differences"] = out["differences"][:4]
        out["ok"] = not out["differences"]
    except Exception as e:  # noqa
        out["exc"] = f"{type(e).__name__}: {e}"
        out["ok"] = False
    return out


def inputs_not_modified_replay(estimands=("margin",), policy="drop"):
    """REAL CombinedDataHandler.__init__: the preprocessed table and the live feed passed in by the caller must come back
    with the same columns and the same cells; and a second handler built from the SAME feed object, to which the raw row of a
    unit outside the baseline was appended in between, must give that unit its own derived quantities (not missing values)"""
    from elexmodel.handlers.data.CombinedData import CombinedDataHandler
    from elexmodel.handlers.data.Estimandizer import Estimandizer

    base = synthetic(12, seed=2)
    cur = feed(base, [100] * 8 + [30] * 4)
    out = {"exc": None, "problems": []}
    try:
        with warnings.catch_warnings():
            warnings.simplefilter("ignore")
            pre = Estimandizer().add_estimand_baselines(base.copy(), {e: e for e in estimands}, False)
            pre0, cur0 = pre.copy(deep=True), cur.copy(deep=True)
            CombinedDataHandler(pre, cur, list(estimands), "county", handle_unreporting=policy)
        for name, a, b in (("preprocessed data", pre0, pre), ("live feed", cur0, cur)):
            if list(a.columns) != list(b.columns):
                out["problems"].append({"table": name, "what": "the handler changed the columns of a table that belongs to its caller", "before": list(a.columns), "after": list(b.columns)})
            elif not a.equals(b):
                out["problems"].append({"table": name, "what": "the handler changed cells of a table that belongs to its caller"})
        # the poller's second run on the same feed object, with one more (unexpected) unit
        row = {c: cur0[c].iloc[0] for c in cur0.columns}
        row.update({"geographic_unit_fips": "ZZ99_9999", "results_dem": 3100.0, "results_gop": 1900.0, "results_turnout": 5100.0, "percent_expected_vote": 100})
        cur2 = pd.concat([cur, pd.DataFrame([row])], ignore_index=True)
        with warnings.catch_warnings():
            warnings.simplefilter("ignore")
            h2 = CombinedDataHandler(pre0.copy(), cur2, list(estimands), "county", handle_unreporting=policy)
        new = h2.current_data[h2.current_data.geographic_unit_fips == "ZZ99_9999"]
        if "margin" in estimands and not (len(new) == 1 and float(new.results_margin.iloc[0]) == 1200.0 and float(new.results_weights.iloc[0]) == 5000.0):
            out["problems"].append({"what": "on the second run the appended unit does not carry its own margin / two-party votes", "results_margin": None if not len(new) else float(new.results_margin.iloc[0]), "results_weights": None if not len(new) else float(new.results_weights.iloc[0])})
        out["ok"] = not out["problems"]
    except Exception as e:  # noqa
        import traceback

        out["exc"] = f"{type(e).__name__}: {e}"
        out["trace"] = traceback.format_exc()[-400:]
        out["ok"] = False
    return out


def final_tables_replay():
    """REAL ModelResultsHandler (add_unit_predictions / add_unit_intervals / add_agg_predictions / process_final_results) for
    the margin estimand (aggregate counted votes and predictions are FRACTIONS) and for a vote count, two states: every cell
    of the returned state table must be the value handed in"""
    from elexmodel.handlers.data.ModelResults import ModelResultsHandler
    from elexmodel.models.ConformalElectionModel import PredictionIntervals

    out = {"exc": None, "problems": []}
    try:
        for est_name, vals in (("margin", {"pred": [0.0275, -0.3125], "results": [0.0125, -0.4375], "lo": [-0.0625, -0.5], "up": [0.125, -0.25]}), ("turnout", {"pred": [5100.0, 770.0], "results": [4100.0, 70.0], "lo": [4800.0, 600.0], "up": [5600.0, 900.0]})):
            rep = pd.DataFrame({"postal_code": ["AA", "BB"], "geographic_unit_fips": ["r1", "r2"], f"results_{est_name}": [100.0, 50.0], "reporting": 1, "unit_category": "expected"})
            non = pd.DataFrame({"postal_code": ["AA", "BB"], "geographic_unit_fips": ["n1", "n2"], f"results_{est_name}": [10.0, 0.0], "reporting": 0, "unit_category": "expected"})
            unx = pd.DataFrame({"postal_code": ["AA"], "geographic_unit_fips": ["x1"], f"results_{est_name}": [7.0], "reporting": [0], "unit_category": ["unexpected"]})
            for f_ in (rep, non, unx):
                f_["results_weights"] = 100.0
            mr = ModelResultsHandler(["postal_code", "unit"], [0.9], rep, non, unx)
            mr.add_unit_predictions(est_name, np.array([40.0, 90.0]))
            if est_name == "margin":
                mr.add_unit_turnout_predictions(np.array([140.0, 190.0]))
            mr.add_unit_intervals(est_name, {0.9: PredictionIntervals(np.array([30.0, 60.0]), np.array([50.0, 150.0]))})
            agg = pd.DataFrame({"postal_code": ["AA", "BB"], f"pred_{est_name}": vals["pred"], f"results_{est_name}": vals["results"], "reporting": [1.0, 1.0]})
            mr.add_agg_predictions(est_name, "postal_code", agg, {0.9: PredictionIntervals(pd.Series(vals["lo"]), pd.Series(vals["up"]))})
            mr.process_final_results()
            sd = mr.final_results["state_data"].set_index("postal_code")
            for i, st in enumerate(("AA", "BB")):
                for col, key in ((f"pred_{est_name}", "pred"), (f"results_{est_name}", "results"), (f"lower_0.9_{est_name}", "lo"), (f"upper_0.9_{est_name}", "up")):
                    if float(sd.loc[st, col]) != vals[key][i]:
                        out["problems"].append({"estimand": est_name, "state": st, "column": col, "handed_in": vals[key][i], "returned": float(sd.loc[st, col])})
                if float(sd.loc[st, "reporting"]) != 1.0:
                    out["problems"].append({"estimand": est_name, "state": st, "column": "reporting", "returned": float(sd.loc[st, "reporting"])})
        out["problems"] = out["problems"][:4]
        out["ok"] = not out["problems"]
    except Exception as e:  # noqa
        out["exc"] = f"{type(e).__name__}: {e}"
        out["ok"] = False
    return out


def inaccurate_solution_in_a_run_replay():
    """REAL NonparametricElectionModel (regularised fits: the cvxpy path) through get_unit_predictions and
    get_unit_prediction_intervals, with the k-th cvxpy solve of the run reporting status optimal_inaccurate (for every k):
    the fit that got the inaccurate solution must be attempted again without weight normalisation, right away"""
    import ast as _ast
    import inspect as _inspect

    import cvxpy.settings as cs
    from cvxpy.reductions.solvers.solving_chain import SolvingChain
    from elexsolver.QuantileRegressionSolver import QuantileRegressionSolver

    import elexmodel.models.ConformalElectionModel as CM
    from elexmodel.models.NonparametricElectionModel import NonparametricElectionModel

    rng = np.random.default_rng(3)
    n_rep, n_non = 40, 5

    def frame(n, rep):
        last = rng.integers(500, 5000, n).astype(float) + 1
        df = pd.DataFrame({"postal_code": "AA", "geographic_unit_fips": [f"{'r' if rep else 'n'}{i}" for i in range(n)], "reporting": int(rep), "unit_category": "expected", "last_election_results_turnout": last, "f1": rng.normal(size=n)})
        df["results_turnout"] = np.round(last * (1 + 0.05 * df.f1 + rng.normal(0, 0.05, n))) if rep else 0.0
        df["residuals_turnout"] = (df.results_turnout - last) / last
        return df

    rep, non = frame(n_rep, True), frame(n_non, False)
    real_invert, real_fit = SolvingChain.invert, QuantileRegressionSolver.fit
    out = {"exc": None, "problems": [], "solves": 0}

    def run(bad_at):
        state, log = {"n": 0}, []

        def invert(self, solution, inverse_data):
            sol = real_invert(self, solution, inverse_data)
            if state["n"] == bad_at:
                sol.status = cs.OPTIMAL_INACCURATE
            state["n"] += 1
            return sol

        def fit(self, *a, **k):
            log.append(bool(k.get("normalize_weights", True)))
            return real_fit(self, *a, **k)

        SolvingChain.invert, QuantileRegressionSolver.fit = invert, fit
        try:
            with warnings.catch_warnings():
                warnings.resetwarnings()
                for node in _ast.parse(_inspect.getsource(CM)).body:  # the module's OWN top-level warning filters
                    if isinstance(node, _ast.Expr) and isinstance(node.value, _ast.Call) and _ast.unparse(node.value.func) == "warnings.filterwarnings":
                        exec(compile(_ast.Module([node], []), "<the module's filter>", "exec"), {"warnings": warnings})
                m = NonparametricElectionModel({"lambda_": 1.0, "features": ["f1"]})
                m.get_unit_predictions(rep.copy(), non.copy(), "turnout")
                m.get_unit_prediction_intervals(rep.copy(), non.copy(), 0.9, "turnout")
        finally:
            SolvingChain.invert, QuantileRegressionSolver.fit = real_invert, real_fit
        return log, state["n"]

    try:
        log0, n_solves = run(-1)
        out["solves"] = n_solves
        for k in range(n_solves):
            log, _ = run(k)
            want = log0[: k + 1] + [False] + log0[k + 1 :]
            if log != want:
                out["problems"].append({"inaccurate_solve": k, "fit_attempts_normalize_weights": log, "expected": want})
        out["problems"] = out["problems"][:4]
        out["ok"] = not out["problems"] and n_solves >= 3
    except Exception as e:  # noqa
        import traceback

        out["exc"] = f"{type(e).__name__}: {e}"
        out["trace"] = traceback.format_exc()[-500:]
        out["ok"] = False
    return out


def national_summary_history_replay():
    """REAL client, bootstrap estimator: the national summary for (weights, base, alpha 0.9) must be the same table on a
    fresh client as on a client on which the summary was requested before with another level, and as after an earlier run
    plus summary with other weights"""
    base = synthetic(120, seed=5, states=("AA", "BB", "CC"))
    cur = feed(base, [100] * 75 + [30] * 45)
    cur_b = feed(base, [100] * 60 + [20] * 60, seed=3)
    weights = {"AA": 9, "BB": 3, "CC": 16}
    out = {"exc": None, "problems": []}

    def run(c, data):
        with warnings.catch_warnings():
            warnings.simplefilter("ignore")
            return run_client(data, base, estimands=("margin",), pi_method="bootstrap", prediction_intervals=(0.9,), aggregates=("postal_code", "unit"), model_parameters={"B": 40, "seed": 7}, features=("baseline_normalized_margin",), client=c)

    try:
        from elexmodel.client import ModelClient

        c1 = ModelClient()
        run(c1, cur)
        ref = c1.get_national_summary_votes_estimates(dict(weights), 100, [0.9])
        c2 = ModelClient()
        run(c2, cur)
        c2.get_national_summary_votes_estimates(dict(weights), 100, [0.8])
        t2 = c2.get_national_summary_votes_estimates(dict(weights), 100, [0.9])
        c3 = ModelClient()
        run(c3, cur_b)
        c3.get_national_summary_votes_estimates(None, 0, [0.7])
        run(c3, cur)
        t3 = c3.get_national_summary_votes_estimates(dict(weights), 100, [0.9])
        for name, t_ in (("after a summary at another level", t2), ("after an earlier run and summary with other weights", t3)):
            if list(t_.columns) != list(ref.columns) or not t_.reset_index(drop=True).equals(ref.reset_index(drop=True)):
                out["problems"].append({"history": name, "columns": list(t_.columns), "fresh_columns": list(ref.columns), "values": [str(x) for x in np.asarray(t_).ravel().tolist()[:6]], "fresh_values": [str(x) for x in np.asarray(ref).ravel().tolist()[:6]]})
        out["ok"] = not out["problems"]
    except Exception as e:  # noqa
        import traceback

        out["exc"] = f"{type(e).__name__}: {e}"
        out["trace"] = traceback.format_exc()[-500:]
        out["ok"] = False
    return out


def national_summary_two_calls_replay():
    """REAL get_national_summary_estimates (threshold mode) asked twice on ONE model object: first without weights (count of
    contests won), then with electoral-vote weights and base 100 -- the second prediction must be 100 + the weights of the
    contests with a positive margin"""
    from elexmodel.models.BootstrapElectionModel import BootstrapElectionModel

    B = 20
    m = BootstrapElectionModel({"features": ["baseline_normalized_margin"], "B": B, "agg_model_hard_threshold": True, "national_summary_correlation": False})
    rng = np.random.default_rng(0)
    margins = {"a": -0.2, "b": 0.3, "c": 0.1, "d": 0.25, "e": -0.05, "f": 0.4}
    weights = {"a": 9, "b": 3, "c": 55, "d": 29, "e": 4, "f": 16}
    names = sorted(margins)
    m.aggregate_pred_margin = np.array([[margins[k]] for k in names])
    noise = rng.normal(0, 0.01, size=(len(names), B))
    m.divided_error_B_1, m.divided_error_B_2 = noise, noise * 0.5
    m.called_contests = np.full((len(names), 1), -1)
    m.stop_model_call = np.full((len(names), 1), False)
    out = {"exc": None}
    try:
        first = m.get_national_summary_estimates(None, 0, 0.9)["margin"]
        second = m.get_national_summary_estimates(dict(weights), 100, 0.9)["margin"]
        want1 = float(sum(1 for k in names if margins[k] > 0))
        want2 = float(100 + sum(weights[k] for k in names if margins[k] > 0))
        out.update(first=float(first[0]), second=float(second[0]), want_first=want1, want_second=want2)
        out["ok"] = bool(abs(first[0] - want1) < 1e-9 and abs(second[0] - want2) < 1e-9)
    except Exception as e:  # noqa
        out["exc"] = f"{type(e).__name__}: {e}"
        out["ok"] = False
    return out


def historical_hidden_results_replay():
    """REAL HistoricalModelClient._format_historical_current_data with the historical file and the live frame listing the units
    in DIFFERENT orders (and the live frame with a non-default index): the historical result of a unit at or above the
    reporting threshold must be passed on, the historical result of every unit below it must be replaced by 0"""
    import elexmodel.client as cl

    n = 12
    hist = pd.DataFrame({"postal_code": "AA", "geographic_unit_fips": [f"u{i:02d}" for i in range(n)], "county_fips": [f"c{i % 3}" for i in range(n)], "results_dem": [100.0 + 7 * i for i in range(n)], "results_turnout": [300.0 + 11 * i for i in range(n)]})
    pev = [100 if i % 3 else 40 for i in range(n)]
    live = pd.DataFrame({"postal_code": "AA", "geographic_unit_fips": [f"u{i:02d}" for i in range(n)], "percent_expected_vote": pev})
    live = live.iloc[::-1]  # reversed order, index labels n-1 .. 0
    live.index = [5 + 2 * k for k in range(n)]

    class PDH:
        def __init__(self, *a, **k):
            self.data = hist.copy()

    saved = (cl.PreprocessedDataHandler, cl.s3.S3CsvUtil)
    out = {"exc": None, "problems": []}
    try:
        cl.PreprocessedDataHandler = PDH
        cl.s3.S3CsvUtil = lambda *a, **k: None
        c = cl.HistoricalModelClient()
        c.aggregates = ["unit", "county_fips"]
        for ests in (["dem"], ["turnout"], ["dem", "turnout"]):
            res, _ = c._format_historical_current_data(live.copy(), "hist", "S", "county", list(ests), {}, 100)
            res = res.set_index("geographic_unit_fips")
            for i in range(n):
                uid = f"u{i:02d}"
                for e in ests:
                    want = float(hist.loc[i, f"results_{e}"]) if pev[i] >= 100 else 0.0
                    if float(res.loc[uid, f"results_{e}"]) != want:
                        out["problems"].append({"estimands": ests, "unit": uid, "percent_expected_vote": pev[i], "column": f"results_{e}", "got": float(res.loc[uid, f"results_{e}"]), "want": want})
            if sorted(res.index) != [f"u{i:02d}" for i in range(n)]:
                out["problems"].append({"estimands": ests, "what": "rows are not the units present in both tables"})
        out["problems"] = out["problems"][:4]
        out["ok"] = not out["problems"]
    except Exception as e:  # noqa
        import traceback

        out["exc"] = f"{type(e).__name__}: {e}"
        out["trace"] = traceback.format_exc()[-500:]
        out["ok"] = False
    finally:
        cl.PreprocessedDataHandler, cl.s3.S3CsvUtil = saved
    return out


def bootstrap_unit_predictions_replay():
    """REAL BootstrapElectionModel.get_unit_predictions: (1) bootstrap already run -- state set by hand with fractional
    entries -- the two returned arrays are the model's weighted_yz_test_pred / weighted_z_test_pred entry by entry;
    (2) not yet run -- compute_bootstrap_errors replaced by a recorder that sets the state -- it is called once, with the
    three frames of this call, and the same holds; (3) the real get_aggregate_predictions over a unit table filled with the
    returned margins gives, for a one-unit group, the ratio the interval function is centred on"""
    from elexmodel.models.BootstrapElectionModel import BootstrapElectionModel

    out = {"exc": None, "problems": []}
    try:
        yz = np.array([[0.63], [-7.4], [12.5], [0.499]])
        z = np.array([[0.7], [9.25], [20.5], [1.3]])
        m = BootstrapElectionModel({"features": ["baseline_normalized_margin"], "B": 10})
        m.ran_bootstrap = True
        m.weighted_yz_test_pred, m.weighted_z_test_pred = yz.copy(), z.copy()
        a, b = m.get_unit_predictions(None, None, "margin", unexpected_units=None)
        if not (np.array_equal(np.asarray(a, dtype=float), yz) and np.array_equal(np.asarray(b, dtype=float), z)):
            out["problems"].append({"what": "bootstrap already run: the returned arrays are not the model's state", "returned": [np.asarray(a).ravel().tolist(), np.asarray(b).ravel().tolist()], "state": [yz.ravel().tolist(), z.ravel().tolist()]})
        m2 = BootstrapElectionModel({"features": ["baseline_normalized_margin"], "B": 10})
        seen = []

        def fake(rep, non, unx):
            seen.append((rep, non, unx))
            m2.weighted_yz_test_pred, m2.weighted_z_test_pred = yz.copy(), z.copy()
            m2.ran_bootstrap = True

        m2.compute_bootstrap_errors = fake
        a2, b2 = m2.get_unit_predictions("R", "N", "margin", unexpected_units="U")
        if seen != [("R", "N", "U")]:
            out["problems"].append({"what": "bootstrap not yet run: compute_bootstrap_errors not called once with the frames of this call", "calls": [list(map(str, s_)) for s_ in seen]})
        if not (np.array_equal(np.asarray(a2, dtype=float), yz) and np.array_equal(np.asarray(b2, dtype=float), z)):
            out["problems"].append({"what": "bootstrap run now: the returned arrays are not the model's state", "returned": [np.asarray(a2).ravel().tolist(), np.asarray(b2).ravel().tolist()]})
        out["ok"] = not out["problems"]
    except Exception as e:  # noqa
        import traceback

        out["exc"] = f"{type(e).__name__}: {e}"
        out["trace"] = traceback.format_exc()[-600:]
        out["ok"] = False
    return out


def hash_seed_replay(scenarios=("bootstrap_districts", "bootstrap", "gaussian", "nonparametric")):
    """REAL client, the requests of bounded/c12_runs.py, each in fresh interpreters with PYTHONHASHSEED = 1, 2, 3: the
    returned tables (and the national summary) must be identical"""
    import json
    import subprocess

    out = {"exc": None, "digests": {}, "differ": []}
    try:
        script = os.path.join(os.path.dirname(os.path.abspath(__file__)), "bounded", "c12_runs.py")
        for sc in scenarios:
            ds = []
            for hs in ("1", "2", "3"):
                env = dict(os.environ, PYTHONHASHSEED=hs)
                env["PYTHONPATH"] = os.pathsep.join([p_ for p_ in [os.path.dirname(os.path.abspath(__file__)), env.get("PYTHONPATH", "")] if p_])
                p = subprocess.run([sys.executable, script, "--child", sc, "--seed", "0"], capture_output=True, text=True, env=env)
                line = [l_ for l_ in p.stdout.splitlines() if l_.startswith("{")]
                ds.append(json.loads(line[-1])["digest"][:16] if line else "child-failed:" + p.stderr[-300:])
            out["digests"][sc] = ds
            if len(set(ds)) != 1 or ds[0].startswith("child-failed"):
                out["differ"].append(sc)
        out["ok"] = not out["differ"]
    except Exception as e:  # noqa
        out["exc"] = f"{type(e).__name__}: {e}"
        out["ok"] = False
    return out


def gaussian_recursion_bottom_replay():
    """REAL GaussianModel.fit with FEW calibration units (3, 4, 9; three is the least the gate lets through) and (a) the empty aggregate, (b) a one-key aggregate whose only
    state is smaller than 10: every call must return (no RecursionError), the empty aggregate through ONE call (no fallback), the
    one-key aggregate through at most the three calls of one fallback step"""
    from elexmodel.distributions.GaussianModel import GaussianModel

    out = {"exc": None, "problems": []}
    try:
        for n in (3, 4, 9, 10, 25):
            cal = pd.DataFrame([{"postal_code": "AA" if i % 3 else "BB", "geographic_unit_fips": f"u{i}", "last_election_results_turnout": 100.0 + i, "lower_bounds": -0.1 + 0.01 * i, "upper_bounds": 0.1 + 0.02 * i} for i in range(n)])
            non = pd.DataFrame([{"postal_code": s_, "geographic_unit_fips": f"n{j}", "last_election_results_turnout": 50.0} for j, s_ in enumerate(["AA", "BB", "CC"])])
            for agg in ([], ["postal_code"]):
                calls = []

                class Rec(GaussianModel):
                    def fit(self, conformalization_data, reporting_units, nonreporting_units, estimand, aggregate=[], **kw):
                        calls.append(list(aggregate))
                        if len(calls) > 50:
                            raise RuntimeError("more than 50 nested / repeated calls of fit: the recursion does not end")
                        return super().fit(conformalization_data, reporting_units, nonreporting_units, estimand, aggregate=aggregate, **kw)

                try:
                    with warnings.catch_warnings():
                        warnings.simplefilter("ignore")
                        m = Rec({"beta": 1, "winsorize": False, "save_conformalization": False}).fit(cal, cal.copy(), non, "turnout", aggregate=list(agg), alpha=0.9)
                except (RecursionError, RuntimeError) as e:
                    out["problems"].append({"calibration_units": n, "aggregate": agg, "what": f"{type(e).__name__}: {e}"[:160], "calls": len(calls)})
                    continue
                if not agg and calls != [[]]:
                    out["problems"].append({"calibration_units": n, "aggregate": agg, "what": "the empty aggregate fell back", "calls": calls[:6]})
                if agg and len(calls) > 3:
                    out["problems"].append({"calibration_units": n, "aggregate": agg, "what": "more than one fallback step below a one-key aggregate", "calls": calls[:8]})
        out["problems"] = out["problems"][:4]
        out["ok"] = not out["problems"]
    except Exception as e:  # noqa
        import traceback

        out["exc"] = f"{type(e).__name__}: {e}"
        out["trace"] = traceback.format_exc()[-500:]
        out["ok"] = False
    return out


def get_units_scenario_replay(estimands=("turnout",)):
    """REAL CombinedDataHandler.get_units (through get_units_direct) for a fixed list of units that meet SEVERAL reasons at once or
    sit on a boundary: each must end up in exactly one frame, once, with the first applicable category"""
    out = {"exc": None, "problems": []}
    B, Z, S, E = "non-modeled: blocklisted", "non-modeled: zero baseline", "non-modeled: strange turnout factor", "expected"
    cases = [
        # (unit, unit_blocklisted, state_blocklisted, flag_turnout, many) -> (where, category)
        (dict(inData=True, inFeed=True, pev=100.0, bw=100.0, tf=5.0), True, False, False, False, ["third"], [B]),
        (dict(inData=True, inFeed=True, pev=100.0, bw=0.0, tf=5.0), False, False, False, False, ["third"], [Z]),
        (dict(inData=True, inFeed=True, pev=100.0, bw=0.0, tf=5.0), False, True, False, False, ["third"], [B]),
        (dict(inData=True, inFeed=True, pev=100.0, bw=100.0, tf=5.0), False, False, True, True, ["third"], [S]),
        (dict(inData=True, inFeed=True, pev=100.0, bw=100.0, tf=0.5), False, False, False, False, ["third"], [S]),  # on the lower limit
        (dict(inData=True, inFeed=True, pev=100.0, bw=100.0, tf=2.0), False, False, False, False, ["third"], [S]),  # on the upper limit
        (dict(inData=True, inFeed=True, pev=100.0, bw=100.0, tf=1.0), False, False, False, False, ["reporting"], [E]),
        (dict(inData=True, inFeed=True, pev=40.0, bw=100.0, tf=5.0), False, False, False, False, ["nonreporting"], [E]),
        (dict(inData=True, inFeed=True, pev=40.0, bw=100.0, tf=5.0), True, False, False, False, ["third"], [B]),
        (dict(inData=False, inFeed=True, pev=100.0, bw=100.0, tf=1.0), False, False, False, False, ["third"], ["unexpected"]),
    ]
    try:
        for unit_, ub, sb, ft, many, where, cat in cases:
            r = get_units_direct(unit_, 100.0, 0.5, 2.0, ub, sb, ft, False, True, False, many, estimands=estimands)
            if r["exc"] is not None or r.get("where") != where or r.get("category") != cat or not r.get("flags_ok"):
                out["problems"].append({"unit": unit_, "unit_blocklisted": ub, "state_blocklisted": sb, "expected": [where, cat], "observed": [r.get("where"), r.get("category")], "exc": r["exc"]})
        out["problems"] = out["problems"][:4]
        out["ok"] = not out["problems"]
    except Exception as e:  # noqa
        out["exc"] = f"{type(e).__name__}: {e}"
        out["ok"] = False
    return out
